#!/venv/bin/python
"""Regenerates /verif/MANIFEST.json from the table below (run after adding a check)."""
import json
import os

VERIF = os.path.dirname(os.path.dirname(os.path.abspath(__file__)))

# id -> (technique, level text, level note)
CHECKS = {
    'C19': (
        'Hypothesis-generated timelines vs. a reference firing model (differential), plus listing-permutation invariance',
        'Generated search (thousands of timelines x timesteps x chunkings, three entry points) against an independent '
        'reference of the firing rule; finds ordering/merging/consumption bugs of any listing within the bounded sizes; '
        'not a proof of absence.',
        'Trusts vv/ref/timeline.py (30 lines, from the statement). Run lengths are multiples of the timeline timestep; '
        'equal-time events never clash on a variable. <=8 events.'),
}

CHECKS['C17'] = (
    'exhaustive enumeration of a small tree/path slice + Hypothesis-generated trees and paths vs. a lexical reference (algebraic laws, node identity)',
    'All 25 (thorough: +729) small trees x all start nodes x all paths up to length 4 are enumerated exhaustively, larger trees/paths '
    'are sampled; each case checks navigation against a lexical reference by node identity and the dict helpers against pure reference functions.',
    'Trusts vv/ref/paths.py. Walks are "defined" only if every prefix exists; dict-helper paths do not descend through non-dict leaves; '
    'update_in may create missing keys (as empty dictionaries) in its input but must leave every existing entry alone. Trees are '
    'static; path_for after moves is checked by C09.')

CHECKS['C14'] = (
    'Hypothesis-generated value trees: round-trip against a structural reference, plain-JSON predicate, idempotence, TypeError for a negative class',
    'Generated search over nested trees of every supported type (and unsupported ones placed anywhere) through serialize_value, '
    'deserialize_value and RAMEmitter; oracle is an independent structural expectation, so wrong conversions, lost recursion, '
    'accepted bad keys or magnitude/unit drift are caught for any tree within the generated sizes.',
    'Trusts pint to build and compare quantities. Excludes offset/log units, float32 magnitudes, >1-D quantity arrays and '
    'plain strings of the reserved !units[...] form; a bare Unit is expected back as 1*unit; int magnitudes may come back as equal floats.')

CHECKS['C18'] = (
    'Hypothesis-generated raw histories and query sets: cell-by-cell transposition oracle and round trip, through pure functions, RAMEmitter and a real Engine',
    'Generated search over fixed-shape histories with falsy values and quantities; every timeseries/path-timeseries cell is '
    'compared with the raw data it came from and the query result with an independently computed projection.',
    'Timeseries clauses: histories have one shape at all times (ragged histories only for the query clause); no top-level variable '
    'is called "time" (nested ones may be); query paths do not descend through a leaf value; int magnitudes may read back as equal '
    'floats; for raw data held out of time order only the alignment with the returned time vector is required.')

CHECKS['C08'] = (
    'Hypothesis-generated variables/updaters/batches vs. a reference fold of the documented updater algebra (differential), three delivery routes',
    'Generated search over every registered updater plus a user function, values in each updater domain, batches delivered as '
    'separate updates, _multi_update lists or an Engine tick; final values are compared with a left-to-right reference fold, '
    'unmentioned variables by identity, the update object with its pre-call copy, unit variables by units and magnitude.',
    'Trusts vv/ref/updaters.py. merge only on flat dicts; magnitudes compared at rel 1e-12 (relative to the largest converted term '
    'when terms cancel); dict_value update-unmodified clause only when one update hits the variable.')

CHECKS['C01'] = (
    'Hypothesis-generated schedules; history invariant over a totally ordered event log (exactly-once / on-time / in-order application, observable sum form)',
    'Generated search over timestep scripts, condition scripts and call sequences; unique tokens and recording updaters make every '
    'application observable with its simulated time, so lost, duplicated, early, late or reordered updates are detected for any schedule '
    'within the bounded sizes.',
    'Serial processes only (parallel covered through C13 equivalence). Interval start after a quiet poll = time of the next poll; '
    're-poll time of quiet processes not asserted. <=4 processes, <=5 calls (thorough: up to 6 and 8).')
CHECKS['C02'] = (
    'Hypothesis-generated schedules ending in forced completion; interval accounting invariant rebuilt from the event log, plus vivarium Clock as differential witness',
    'Generated search over timesteps that do not divide run lengths, chunked calls, initial times and precisions; checks timestep '
    'argument == interval length, contiguity, sum == elapsed, fronts complete.',
    'No condition-false polls (quantifier is over timesteps and calls). Decimal-grid times compared at 1e-9. Cases of C03\'s known '
    'finding F03b (a waiting process polled again asks for an interval ending in the past) are excluded by construction and counted '
    'as rejected. <=4 processes (thorough: 6).')
CHECKS['C03'] = (
    'Hypothesis-generated adaptive poll/condition scripts (incl. empty and all-quiet composites); clock invariants over the event log, deterministic poll budget for termination',
    'Generated search over answer sequences; global_time is read in every callback/emit/return: monotone, bounded by the call end, exact '
    'landing, on the precision grid; non-termination is detected by a deterministic poll budget (20x the one-pass-per-event bound) and a watchdog.',
    'Termination only up to the iteration bound. One known finding (F03b, deferred process re-polled into the past) is excluded by signature and counted.')
CHECKS['C04'] = (
    'history invariant (same-instant invocations and same-layer steps see one committed whole-state snapshot, no apply in between) + metamorphic listing-permutation relation between two engine runs',
    'Generated schedules with whole-hierarchy snapshots taken inside callbacks; and pairs (canonical, permuted listing of processes/steps/flow/'
    'topology/ports/initial state) of composites with state-dependent but commuting updates whose trajectories must be identical.',
    'Derivers are not permuted (order-sensitive by specification). Updates are integer accumulates / sets on distinct variables. '
    'No structural updates in these composites (stale views after structural updates are C07\'s).')

CHECKS['C05'] = (
    'Hypothesis-generated step DAGs, derivers and nesting; history invariant over the event log against a reference longest-path layering (stamps seen by each step); reflow cases re-generate a compartment with a second DAG in one batch',
    'Generated search over DAG shapes, deriver placements, nesting depths and schedules; each step records the done-stamps it sees, so missing/'
    'duplicated runs, wrong order, updates applied too late/early within a phase and phases at the wrong moment are detected for every generated flow.',
    'Trusts vv/ref/layers.py. Order between derivers of the two dictionaries not asserted; ".." flow dependencies rejected at construction are counted, not flagged. The DAG is fixed at construction except in the reflow cases (one compartment of 2..5 steps deleted and re-generated under the same key in one batch with a second DAG); other steps created later are C10\'s. <=7 flow steps, <=4 derivers, depth <=2.')

CHECKS['C06'] = (
    'hierarchy-first Hypothesis generator (target tree first, ports/topologies derived, wiring map W recorded) with a construction-time ground-truth oracle: read == W-node value, write == W-node + increment, frame condition',
    'Generated search over plain/".."/_path-split/renamed/leaf/glob/sub-topology/aliased/output ports placed at any depth; the oracle is the '
    'generator\'s own bookkeeping and never calls inverse_topology/schema_topology/normalize_path, so read/write asymmetries and lost or misplaced '
    'updates are detected for every generated topology.',
    'Detours only through nodes known to exist; glob children with sub-topology provisioned by a declaring process; depth <=4, <=3 processes x <=3 ports.')
CHECKS['C07'] = (
    'Hypothesis-generated wirings and model-based structural histories; differential oracle: states argument vs. independent projection of engine.state.get_value() taken in the same callback',
    'Every calculate_timestep/update_condition/next_update call of every observed process is compared for exact shape and values with a '
    'projection of the live hierarchy through the generator\'s wiring map, statically (masking, output ports, globs) and across generated '
    '_add/_delete/_move/_generate/_divide histories with viewers of different timesteps.',
    'Projection trusts Store.get_value() for raw values (and Store.outer for the anchor of moved residents). Histories <=6 batches, <=3 viewers.')
CHECKS['C09'] = (
    'model-based stateful generation (reference dict-tree threaded through a composite Hypothesis strategy) compared with the real hierarchy after every batch, plus Store-identity frame condition',
    'Generated histories of structural operations (all five kinds, combined batches, nested targets, operator as process or step) are '
    'executed on a real Engine; values, process/step placement and node identities are compared with an independent reference after every batch.',
    'Trusts vv/ref/tree.py. Fresh keys; default dividers; residents do not change values. Known finding F09a (tuple-path _delete) excluded by signature, generated only in the last batch.')
CHECKS['C10'] = (
    'model-based structural histories with running residents; history invariants over an identity-tagged event log, published-composite == hierarchy equality after every batch, rebuilt-engine continuation (differential)',
    'Generated histories with resident processes/steps of drawn timesteps (updates in flight at structural changes), run unforced; checks that '
    'only instances living in the hierarchy run, steps exactly once per phase, processes on contiguous intervals from creation, published '
    'processes/steps/flow/topology (and the source Composite) equal the hierarchy, and a second engine rebuilt from the published composite continues identically.',
    'Fate of an in-flight update of a removed/moved process not asserted. Which of the two dictionaries (processes/steps) holds a '
    'step is not compared; the relative order of a compartment\'s legacy derivers and flow-less steps is not observable (seeded change C10g is not caught). <=6 batches (thorough 10).')
CHECKS['C11'] = (
    'Hypothesis-generated mother states x divider assignments x division triggers; per-divider conservation laws (valid for every random outcome) and an independence (non-interference) check over later ticks',
    'Generated search over values in each divider\'s domain (incl. large ints, non-dyadic floats, quantities, inf, branch-level and '
    'topology/config dividers), explicit overrides, 1..3 generations and four trigger routes; laws relate the mother just before to the daughters '
    'just after the dividing batch; then only flagged cells are updated and every other cell must stay deep-equal.',
    'Negative counts not generated; non-dyadic halves at rel 1e-15; RNG seeded from the spec.')
CHECKS['C12'] = (
    'Hypothesis-generated emit-flag assignments/store_schema overrides/units/serializers/emit_step and structural histories; oracle: each emitted row == flag projection of the snapshot taken in the same emit callback, time-key laws, subset relation between emit_step runs (metamorphic)',
    'A recording emitter captures every emit together with a snapshot of the hierarchy; rows are compared with the projection through flags '
    'computed by the generator; row times are compared with the times at which updates were applied; emit_step>1 runs are compared with the '
    'emit_step=1 run of the same spec.',
    'Rows compared on leaves; duplicates/sparse subsets tolerated for emit_step>1; pint str() trusted for the expected quantity strings.')
CHECKS['C15'] = (
    'hierarchy-first Hypothesis generator with per-node defaults and a partial initial state; construction-time ground truth (initial else declared default), conflict class must raise, Composite.initial_state/default_state placement',
    'Generated search over wirings, default assignments among several declarers, partial initial states and three construction routes; '
    'the oracle is the generator\'s wiring map; a negative class with conflicting _value/_units/_serializer must raise at construction.',
    'Differing _default values are not a conflict (any declared default accepted). Undeclared initial-state content is counted, not flagged.')
CHECKS['C16'] = (
    'Hypothesis-generated composers, embedding paths, merge sequences and overrides; structural equality vs. reference nest/union, snapshot invariance of merged-in composites, differential trajectories across the three engine entry points and root vs. embedded runs',
    'Generated search over merge sequences (same template merged repeatedly, further material merged later) with re-checks of every earlier '
    'merged-in composite after every later merge; embedded vs root and composite/parts/store engines are run and their trajectories compared.',
    'Processes compared by identity within a composite and by (class, name, parameters) across generate() calls.')

CHECKS['C13'] = (
    'differential testing: every generated schedule / structural history is built twice (serial, and with a drawn subset marked _parallel) and compared; plus shutdown-plan fault enumeration (end once/twice/with commands pending/never) with OS-level liveness checks of the workers',
    'Generated search over subsets of parallel processes/steps x schedules x structural histories (parallel compartments deleted, moved, '
    'generated, divided while idle, due in the same batch or in flight) x shutdown plans; trajectories, final state and published composite must '
    'be identical to the serial run, no exception may occur, and after shutdown no worker OS process may be alive.',
    'The harness owns the schedule (single-threaded engine, synchronous workers); crashes/signals inside a worker are outside the technique. '
    'Division by copying a mother holding a ParallelProcess is not generated. 100 cases per shard in the quick tier.')

NOT_YET = 'check not built yet in this session (planned, see DESIGN.md section 8)'


def main():
    props = [json.loads(l)['id'] for l in open(os.path.join(VERIF, 'properties.jsonl'))]
    checks = []
    for pid in props:
        if pid not in CHECKS:
            continue
        technique, text, note = CHECKS[pid]
        checks.append({
            'property_id': pid,
            'quick_cmd': './check %s quick' % pid,
            'thorough_cmd': './check %s thorough' % pid,
            'evidence_file': 'evidence/%s.json' % pid,
            'replay_cmd_template': './check %s quick --replay {path}' % pid,
            'engine': 'vv',
            'level_claimed': {'category': 'exploration', 'text': text,
                              'design_ref': 'DESIGN.md §%s' % pid},
            'level_note': note,
            'technique': technique,
        })
    manifest = {
        'version': 1,
        'setup_cmd': '/venv/bin/pip install -q --no-index --find-links /opt/veriftools/wheels hypothesis >/dev/null 2>&1; '
                     '/venv/bin/pip install -q --no-index --find-links /opt/veriftools/wheels --target /verif/.deps atheris >/dev/null 2>&1; '
                     '/venv/bin/python -c "import hypothesis, vivarium"',
        'hooks': {
            'guard': 'VIVARIUM_CORE_VERIF',
            'enable': 'no source hooks are needed: all observation goes through public extension points '
                      '(user Process/Step/updater/divider/Emitter objects); ./check exports VIVARIUM_CORE_VERIF=1 for form',
            'baseline_off_cmd': 'sh /verif/tools/baseline.sh',
            'source_commits': [],
            'add_only': True,
        },
        'engines': [{
            'name': 'vv',
            'path': 'vv/',
            'serves_properties': [c['property_id'] for c in checks],
            'kind_free_text': 'Hypothesis 6.168 property-based testing harness: sharded generated search with '
                              'explicit oracles (reference models, history invariants, metamorphic/differential '
                              'relations, round-trips), shrinking to JSON replay files',
        }],
        'checks': checks,
        'not_applicable': [{'property_id': p, 'reason': NOT_YET}
                           for p in props if p not in CHECKS],
        'notes': 'Every check is `./check <ID> quick|thorough` (exit 0/1/2). Known findings: KNOWN_FINDINGS.txt. '
                 'Regression replays: replays/<ID>/*.json. Evidence rewritten per run.',
    }
    with open(os.path.join(VERIF, 'MANIFEST.json'), 'w') as f:
        json.dump(manifest, f, indent=1)
    print('wrote MANIFEST.json with %d checks' % len(checks))


if __name__ == '__main__':
    main()

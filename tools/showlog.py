#!/venv/bin/python
"""Print the event log of a scheduler-family replay: tools/showlog.py <file>"""
import json, sys
sys.path.insert(0, '/verif')
from vv import core, sched
core.silence()
doc = json.load(open(sys.argv[1]))
spec = doc.get('spec', doc)
if 'base' in spec:
    spec = spec['base']
ctx, eng, failure = sched.execute(spec)
for ev in ctx.log:
    if ev[0] == 'emit':
        print(('emit', ev[1], ev[2], {k: v for k, v in (ev[3] or {}).items() if k in ('time',)}))
    elif ev[0] == 'invoke':
        print(ev[:5])
    else:
        print(ev)
print('failure', failure)

#!/venv/bin/python
"""Confirm and record an independently written breaking change.

usage: tools/seeded.py <name> <worktree> <outdir> <PROPERTY-ID> [more IDs to run ...]

<worktree> is a scratch git worktree of /repo with the change applied (outside
/repo and /verif); <outdir> holds the author's patch.diff, demo.py, meta.json.
Steps (all against the scratch worktree, never /repo):
  1. demo.py exits 1 with the change, 0 with the change stashed
  2. the pinned test suite still passes with the change (tools/baseline.sh)
  3. `./check <ID> quick` with VV_REPO=<worktree> for the named properties
Results are written to /verif/seeded/<name>/{patch.diff,demo.py,meta.json}.
"""
import json
import os
import shutil
import subprocess
import sys

VERIF = os.path.dirname(os.path.dirname(os.path.abspath(__file__)))


def sh(cmd, cwd=None, env=None, timeout=3000):
    p = subprocess.run(cmd, shell=True, cwd=cwd, env=env, capture_output=True,
                       text=True, timeout=timeout)
    return p.returncode, p.stdout + p.stderr


def main(argv):
    name, wt, out, pid = argv[:4]
    ids = [pid] + argv[4:]
    dest = os.path.join(VERIF, 'seeded', name)
    os.makedirs(dest, exist_ok=True)
    meta = {}
    if os.path.exists(os.path.join(out, 'meta.json')):
        try:
            meta = json.load(open(os.path.join(out, 'meta.json')))
        except Exception:
            meta = {'author_meta_unreadable': True}
    rc, diff = sh('git diff', cwd=wt)
    open(os.path.join(dest, 'patch.diff'), 'w').write(diff)
    shutil.copy(os.path.join(out, 'demo.py'), os.path.join(dest, 'demo.py'))
    ver = {}
    rc1, o1 = sh('timeout 300 /venv/bin/python %s/demo.py' % out, cwd=wt)
    # (git stash is shared between worktrees: reverse-apply the diff instead)
    pfile = os.path.join(dest, 'patch.diff')
    rcr, orr = sh('git apply -R %s' % pfile, cwd=wt)
    if rcr != 0:
        raise SystemExit('cannot reverse the patch: ' + orr)
    try:
        rc0, o0 = sh('timeout 300 /venv/bin/python %s/demo.py' % out, cwd=wt)
    finally:
        sh('git apply %s' % pfile, cwd=wt)
    ver['demo_exit_with_change'] = rc1
    ver['demo_exit_without_change'] = rc0
    ver['demo_output_with_change'] = o1[-600:]
    rcb, ob = sh('sh %s/tools/baseline.sh %s' % (VERIF, wt))
    ver['suite'] = ob.strip().splitlines()[-1] if ob.strip() else ''
    ver['suite_ok'] = rcb == 0
    checks = {}
    # run the checks against /repo's HEAD plus the change, not against the
    # author's worktree: its base may predate later repairs, and a regression
    # replay of a defect still open there would be counted as catching the
    # change
    head_wt = '/tmp/seeded-head-%d' % os.getpid()
    sh('git -C /repo worktree remove --force %s' % head_wt)
    rc_wt, o_wt = sh('git -C /repo worktree add --detach %s HEAD' % head_wt)
    rc_ap, o_ap = sh('git apply %s' % pfile, cwd=head_wt) if rc_wt == 0 \
        else (1, o_wt)
    check_tree = head_wt if rc_ap == 0 else wt
    ver['checked_on'] = ('HEAD of /repo + patch' if rc_ap == 0 else
                         'author worktree (patch does not apply to HEAD)')
    for i in ids:
        env = dict(os.environ, VV_REPO=check_tree, VERIF_SEED='1')
        rc, o = sh('./check %s quick' % i, cwd=VERIF, env=env)
        lines = [l for l in o.splitlines() if not l.startswith('KNOWN-FINDING')]
        checks[i] = {'exit': rc,
                     'verdict': {0: 'missed', 1: 'caught'}.get(rc, 'harness-error'),
                     'report': [l for l in lines if l.strip()][:3]}
        shutil.rmtree(os.path.join(VERIF, 'found', i), ignore_errors=True)
    sh('git -C /repo worktree remove --force %s' % head_wt)
    shutil.rmtree(head_wt, ignore_errors=True)
    sh('git -C /repo worktree prune')
    ver['checks'] = checks
    meta['breaks_property'] = pid
    meta['confirmed'] = ver
    meta['how_checked'] = ('scratch worktree of /repo with the change applied; '
                           'demo.py run with and without the change; '
                           'tools/baseline.sh on the worktree; ./check <ID> quick '
                           'with VV_REPO=<scratch worktree of /repo HEAD + the '
                           'patch>, VERIF_SEED=1')
    json.dump(meta, open(os.path.join(dest, 'meta.json'), 'w'), indent=1)
    ok = rc1 == 1 and rc0 == 0 and rcb == 0
    print('%s: demo with/without = %d/%d, suite %s, checks %s%s' % (
        name, rc1, rc0, 'ok' if rcb == 0 else 'BROKEN',
        {k: v['verdict'] for k, v in checks.items()},
        '' if ok else '   <-- NOT A VALID SEED'))


if __name__ == '__main__':
    main(sys.argv[1:])

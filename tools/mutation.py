#!/venv/bin/python
"""Sensitivity protocol: apply each deliberate breakage of mutants/<ID>.json to a
scratch copy of /repo (outside /repo and /verif), run `./check <ID> quick` against
it (VV_REPO), expect exit 1, delete the copy.  Not a registered check.

usage: tools/mutation.py <ID> [mutant-name ...]      (ID may be ALL)
mutants/<ID>.json: [{"name":..., "file": "vivarium/...", "old": "...", "new": "..."}]
"""
import json
import os
import shutil
import subprocess
import sys
import tempfile

VERIF = os.path.dirname(os.path.dirname(os.path.abspath(__file__)))


def run(pid, only):
    path = os.path.join(VERIF, 'mutants', pid + '.json')
    if not os.path.exists(path):
        print('%s: no mutants' % pid)
        return True
    ok = True
    for m in json.load(open(path)):
        if only and m['name'] not in only:
            continue
        scratch = tempfile.mkdtemp(prefix='vv-mut-')
        try:
            shutil.copytree('/repo/vivarium', os.path.join(scratch, 'vivarium'),
                            ignore=shutil.ignore_patterns('__pycache__'))
            edits = m.get('edits') or [m]
            for e in edits:
                f = os.path.join(scratch, e['file'])
                src = open(f).read()
                if src.count(e['old']) != 1:
                    print('%s/%s: pattern occurs %d times in %s (stale mutant)'
                          % (pid, m['name'], src.count(e['old']), e['file']))
                    ok = False
                    break
                open(f, 'w').write(src.replace(e['old'], e['new']))
            else:
                env = dict(os.environ, VV_REPO=scratch)
                env.setdefault('VERIF_SEED', '1')
                tier = m.get('tier', 'quick')
                p = subprocess.run([os.path.join(VERIF, 'check'), pid, tier],
                                   env=env, capture_output=True, text=True,
                                   timeout=3600)
                line = [l for l in p.stdout.splitlines()
                        if l.startswith(('VIOLATION', 'HARNESS'))][:1]
                verdict = 'KILLED' if p.returncode == 1 else (
                    'SURVIVED' if p.returncode == 0 else 'HARNESS-ERROR')
                if p.returncode != 1:
                    ok = False
                print('%s/%s: %s %s' % (pid, m['name'], verdict,
                                        line[0] if line else ''))
                if p.returncode == 2:
                    print(p.stdout[-1500:])
        finally:
            shutil.rmtree(scratch, ignore_errors=True)
            shutil.rmtree(os.path.join(VERIF, 'found', pid), ignore_errors=True)
    return ok


def main(argv):
    pid = argv[0]
    only = set(argv[1:])
    ids = ([f[:-5] for f in sorted(os.listdir(os.path.join(VERIF, 'mutants')))]
           if pid == 'ALL' else [pid])
    good = all([run(i, only) for i in ids])
    sys.exit(0 if good else 1)


if __name__ == '__main__':
    main(sys.argv[1:])

#!/venv/bin/python
"""Validates MANIFEST.json and every evidence file against the schemas."""
import json, os, sys, jsonschema
V = os.path.dirname(os.path.dirname(os.path.abspath(__file__)))
m = json.load(open(os.path.join(V, 'MANIFEST.json')))
jsonschema.validate(m, json.load(open('/root/.vp/MANIFEST.schema.json')))
es = json.load(open('/root/.vp/EVIDENCE.schema.json'))
bad = 0
for c in m['checks']:
    p = os.path.join(V, c['evidence_file'])
    if not os.path.exists(p):
        print('missing evidence', p); bad += 1; continue
    try:
        jsonschema.validate(json.load(open(p)), es)
    except Exception as e:
        print('invalid', p, str(e)[:200]); bad += 1
print('manifest ok, %d checks, %d evidence problems' % (len(m['checks']), bad))
sys.exit(1 if bad else 0)

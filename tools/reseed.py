#!/venv/bin/python
"""Re-run the named check against every recorded independently written change.

usage: tools/reseed.py [name-prefix ...]      (default: all of seeded/)

For each seeded/<name>/patch.diff: make a scratch worktree of /repo's HEAD under
/tmp, apply the patch, run `./check <ID> quick` with VV_REPO=<worktree>, remove
the worktree.  A patch that no longer applies (the code it touched was repaired
since) is reported as 'stale', not as a miss.  Nothing is written to /repo or
to evidence/.
"""
import json
import os
import shutil
import subprocess
import sys
from concurrent.futures import ThreadPoolExecutor

VERIF = os.path.dirname(os.path.dirname(os.path.abspath(__file__)))
REPO = '/repo'


def sh(cmd, cwd=None, env=None, timeout=3000):
    p = subprocess.run(cmd, shell=True, cwd=cwd, env=env, capture_output=True,
                       text=True, timeout=timeout)
    return p.returncode, p.stdout + p.stderr


def one(name):
    d = os.path.join(VERIF, 'seeded', name)
    meta = json.load(open(os.path.join(d, 'meta.json')))
    pid = meta.get('property') or name[:3]
    pid = pid[:3]
    wt = '/tmp/reseed-%s-%d' % (name[:40], os.getpid())
    sh('git -C %s worktree remove --force %s' % (REPO, wt))
    rc, out = sh('git -C %s worktree add --detach %s HEAD' % (REPO, wt))
    if rc != 0:
        return name, pid, 'error: ' + out[-200:]
    try:
        rc, out = sh('git apply %s' % os.path.join(d, 'patch.diff'), cwd=wt)
        if rc != 0:
            # the context may have moved with a later repair: 3-way merge
            rc, out = sh('git apply --3way %s' % os.path.join(d, 'patch.diff'),
                         cwd=wt)
        if rc != 0 or 'with conflicts' in out:
            return name, pid, 'stale (patch does not apply)'
        env = dict(os.environ, VV_REPO=wt)
        rc, out = sh('%s/check %s quick' % (VERIF, pid), cwd=VERIF, env=env)
        if rc == 1 and 'VIOLATION property=%s' % pid in out:
            return name, pid, 'caught'
        if rc == 0:
            # does the change still break anything on this HEAD?  (a later
            # repair may have neutralised it)
            demo = os.path.join(d, 'demo.py')
            rcd, _ = sh('timeout 300 /venv/bin/python %s' % demo, cwd=wt)
            if rcd == 0:
                return name, pid, 'neutralised (its demo passes on HEAD + patch)'
            return name, pid, 'MISSED'
        return name, pid, 'exit %d: %s' % (rc, out[-300:])
    finally:
        sh('git -C %s worktree remove --force %s' % (REPO, wt))
        shutil.rmtree(wt, ignore_errors=True)


def main(argv):
    names = sorted(os.listdir(os.path.join(VERIF, 'seeded')))
    if argv:
        names = [n for n in names if any(n.startswith(a) for a in argv)]
    bad = 0
    with ThreadPoolExecutor(3) as ex:
        for name, pid, verdict in ex.map(one, names):
            print('%-55s %s %s' % (name, pid, verdict), flush=True)
            if verdict != 'caught' and not verdict.startswith(('stale', 'neutralised')):
                bad += 1
    sh('git -C %s worktree prune' % REPO)
    # found/ files written by these runs belong to the scratch copies
    print('%d of %d not caught' % (bad, len(names)))
    return 1 if bad else 0


if __name__ == '__main__':
    sys.exit(main(sys.argv[1:]))

#!/bin/sh
# Runs the repository's pinned test suite (guard OFF) and compares with BASELINE.json stable_pass.
# usage: tools/baseline.sh [repo-dir]
REPO_DIR="${1:-/repo}"
OUT="$(mktemp /tmp/vv-baseline-XXXXXX.xml)"
unset VIVARIUM_CORE_VERIF
cd "$REPO_DIR" && /venv/bin/python -m pytest -ra -q -p no:cacheprovider --timeout=900 --continue-on-collection-errors --junitxml="$OUT" >/dev/null 2>&1
/venv/bin/python - "$OUT" <<'PY'
import json, sys, xml.etree.ElementTree as ET
base = set(json.load(open('/root/.vp/BASELINE.json'))['stable_pass'])
passed = set()
for tc in ET.parse(sys.argv[1]).getroot().iter('testcase'):
    ok = not any(c.tag in ('failure', 'error', 'skipped') for c in tc)
    if ok:
        passed.add('%s::%s' % (tc.get('classname'), tc.get('name')))
missing = sorted(base - passed)
print('baseline: %d/%d stable tests pass' % (len(base & passed), len(base)))
for m in missing:
    print('  MISSING', m)
sys.exit(1 if missing else 0)
PY
rc=$?
rm -f "$OUT"
exit $rc

#!/venv/bin/python
"""Regenerates DESIGN.md section 9.6 from seeded/*/meta.json."""
import json, os, re
V = os.path.dirname(os.path.dirname(os.path.abspath(__file__)))
rows = []
for name in sorted(os.listdir(os.path.join(V, 'seeded'))):
    mp = os.path.join(V, 'seeded', name, 'meta.json')
    if not os.path.exists(mp):
        continue
    m = json.load(open(mp))
    c = m.get('confirmed', {})
    checks = c.get('checks', {})
    verdicts = ', '.join('%s %s' % (k, v['verdict']) for k, v in checks.items())
    summ = (m.get('summary') or '').replace('\n', ' ').replace('|', '/')
    if len(summ) > 230:
        summ = summ[:227] + '...'
    hist = ' **' + m['history'].split('.')[0].replace('|', '/') + '.**' if m.get('history') else ''
    rows.append('| `%s` | %s | %s | %s%s |' % (name, m.get('breaks_property'), summ, verdicts, hist))
n_hist = sum(1 for r in rows if '**' in r)
by_round = {}
for name in sorted(os.listdir(os.path.join(V, 'seeded'))):
    mm = re.match(r'C\d\d([a-z]?)-', name)
    if mm:
        rnd = ' abcdefghijklmn'.index(mm.group(1)) if mm.group(1) else 1
        m = json.load(open(os.path.join(V, 'seeded', name, 'meta.json')))
        first_missed = 'first run' in (m.get('history') or '') or \
            'was missed' in (m.get('history') or '') or \
            (m.get('history') or '').startswith('not caught')
        by_round.setdefault(rnd, [0, 0])
        by_round[rnd][0] += 1
        by_round[rnd][1] += bool(first_missed)
summary = '; '.join('round %d: %d first missed of %d' % (r, k, n)
                    for r, (n, k) in sorted(by_round.items()))
section = ['### 9.6 Independently written breaking changes (`seeded/`)', '',
 '%d changes in all. First missed by the check of the named property: %s.' % (len(rows), summary),
 'Every first miss of the named property led to a stronger generator or',
 'oracle, after which the change is caught (`tools/reseed.py` re-applies every patch to a scratch',
 'worktree of the current HEAD and re-runs the named check); the exceptions, where the named check does',
 'not apply and a neighbouring property\'s check catches the change, or where the change is not caught,',
 'are said so in the bold note of their row. Round 9 (six changes, written in the last hour) was',
 'only partly followed by strengthening: `C05i` led to C05\'s reflow cases and is caught now; `C09i`',
 'is an open gap, described in its row, in §7 and in `seeded/<id>/meta.json`.', '',
 'Each change was written by a fresh sub-agent that saw only the property text and a scratch git',
 'worktree of the repository (nothing from /verif). Every entry was confirmed by `tools/seeded.py`:',
 'the author\'s `demo.py` exits 1 with the change and 0 without it, the pinned suite still passes with',
 'it (123/123), and the named quick checks were run with `VV_REPO=<worktree>` (`seeded/<id>/meta.json`',
 'records the details). "missed" for a *neighbouring* property is expected when the change does not',
 'break that property\'s statement; a miss of the *named* property led to strengthening the check',
 '(marked in bold).', '',
 '| id | property | change | quick checks run against it |', '|---|---|---|---|'] + rows
txt = '\n'.join(section) + '\n'
p = os.path.join(V, 'DESIGN.md')
s = open(p).read()
if '### 9.6 Independently written' in s:
    s = s[:s.index('### 9.6 Independently written')] + txt
else:
    s = s.rstrip('\n') + '\n\n' + txt
open(p, 'w').write(s)
print('%d seeded changes' % len(rows))

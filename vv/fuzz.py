"""Coverage-guided fuzzing of a property (atheris / libFuzzer driving the
property's Hypothesis strategy through `fuzz_one_input`).

usage: python -m vv.fuzz <ID> <seed> <worker> <runs> <outfile>

The semantic oracle is inside the target (prop.run_case): a violation that no
known-finding signature matches is written to <outfile> and the worker exits.
libFuzzer's `-seed`/`-runs` with a fresh, empty corpus pins a campaign only
approximately; the saved failing spec is the reproducible unit.
"""
import json
import os
import sys
import tempfile
import time

DEPS = os.path.join(os.path.dirname(os.path.dirname(os.path.abspath(__file__))),
                    '.deps')
if DEPS not in sys.path:
    sys.path.append(DEPS)


def main(argv):
    pid, seed, idx, runs, out = argv
    seed, idx, runs = int(seed), int(idx), int(runs)
    import atheris
    with atheris.instrument_imports(include=['vivarium']):
        import vivarium                              # noqa: F401
        import vivarium.core.engine                  # noqa: F401
        import vivarium.core.serialize               # noqa: F401
        import vivarium.processes.timeline           # noqa: F401
    from vv import core, findings
    from vv.shard import Collector, execute
    core.silence()
    core.assert_repo()
    prop = core.load_prop(pid)
    col = Collector(prop, 'thorough')
    from hypothesis import given, settings, HealthCheck
    t0 = time.time()
    state = {'n': 0}

    def dump(final=False):
        summ = col.summary()
        summ.update(shard='fuzz%d' % idx, shard_seed=seed, fuzz=True,
                    wall_s=time.time() - t0, final=final)
        tmp = out + '.tmp'
        with open(tmp, 'w') as f:
            json.dump(summ, f, default=repr)
        os.replace(tmp, out)

    @settings(database=None, deadline=None, derandomize=False,
              suppress_health_check=list(HealthCheck), max_examples=10 ** 9)
    @given(prop.strategy('thorough'))
    def target(spec):
        state['n'] += 1
        try:
            res = execute(prop, spec)
        except core.HarnessError as e:
            col.harness_error = str(e)
            dump(True)
            os._exit(2)
        except Exception as e:
            col.harness_error = core.format_exc(e)
            dump(True)
            os._exit(2)
        if col.feed(spec, res):
            dump(True)
            os._exit(1)
        if state['n'] % 500 == 0:
            dump()

    corpus = out + '.corpus'     # inside the run's scratch directory
    os.makedirs(corpus, exist_ok=True)
    args = [sys.argv[0], '-runs=%d' % runs, '-seed=%d' % (seed or 1),
            '-max_len=8192', '-verbosity=0', '-print_final_stats=0', corpus]
    dump()
    import atexit
    atheris.Setup(args, target.hypothesis.fuzz_one_input)
    try:
        atheris.Fuzz()
    finally:
        dump(True)


if __name__ == '__main__':
    main(sys.argv[1:])

"""Structural histories (C07, C09, C10, C12, C13): model-based generator of
operation histories and the runners that execute them on a real Engine.

World:  root/OP (operator), root/G1 and root/G2 (collections of agent
compartments declared through glob ports), G1/perm (never touched) holding the
nested collection G1/perm/sub, optional viewers V0.. with glob ports.

Spec (plain data):
 {'init': {'g1': {child: {'x':..,'y':..}}, 'g2': {...}, 'g3': {...}},
  'residents': {'g1/child': {'ts','inc','step','deriver'}},
  'ticks': [[op, ...], ...],        # one batch per operator call
  'op_is_step': bool, 'viewers': [{'name','port_on','vars','ts'}],
  'expect_reject': bool}
"""
import copy

from hypothesis import strategies as st

from vv import kit
from vv.core import exc_violation, innermost_is_harness
from vv.ref import tree as ref
from vv.util import deq, getp, put, tree_leaves

PORTS = ['g1', 'g2', 'g3']


# ------------------------------------------------------------------ generator

@st.composite
def resident_desc(draw, inc_ok):
    step = draw(st.booleans())
    return {'ts': draw(st.sampled_from([1.0, 1.0, 1.5, 2.0, 0.5])),
            'inc': draw(st.integers(0, 1)) if inc_ok else 0,
            'step': step, 'deriver': draw(st.integers(0, 3)) == 0,
            'chain': step and draw(st.booleans()),
            # a deriver may be listed under `processes` (legacy layout)
            'legacy': draw(st.booleans())}


# state values: 0 (falsy, and different from the sub-schema defaults 7 / 9) often
VAL = st.one_of(st.just(0), st.integers(0, 50))


@st.composite
def histories(draw, viewers=False, residents=False, inc_ok=False,
              max_ticks=6, reject_ok=False, step_op_ok=True,
              tuple_delete=False, none_ok=False, anchor_ok=False, replace_ok=False):
    counter = [0]
    graveyard = []      # keys that existed in an earlier tick and are gone now

    def fresh():
        # now and then re-use the key of a compartment that was deleted,
        # divided or otherwise removed in an EARLIER tick
        if graveyard and draw(st.integers(0, 3)) == 0:
            k = graveyard.pop(draw(st.integers(0, len(graveyard) - 1)))
            return k
        counter[0] += 1
        return 'n%d' % counter[0]

    def state():
        s = {}
        if draw(st.booleans()):
            s['x'] = draw(VAL)
        if draw(st.integers(0, 2)) == 0:
            s['y'] = draw(VAL)
        elif none_ok and draw(st.integers(0, 4)) == 0:
            s['y'] = None       # an explicitly unset variable must stay unset
        return s

    init = {}
    res0 = {}
    for port in PORTS:
        kids = {}
        for _ in range(draw(st.integers(0, 2))):
            k = fresh()
            kids[k] = {'x': draw(VAL),
                       'y': draw(VAL)}
            if residents and draw(st.booleans()):
                res0[port + '/' + k] = draw(resident_desc(inc_ok))
        init[port] = kids
    # model
    model = {'G1': {'perm': ref.new_state({})}, 'G2': {}}
    model['G1']['perm']['sub'] = {}
    for port in PORTS:
        c = ref.coll(model, port)
        for k, v in init[port].items():
            c[k] = ref.new_state(v, res0.get(port + '/' + k))
    nticks = draw(st.integers(1, max_ticks))
    ticks = []
    expect_reject = False
    recreate = []       # (collection, key): re-create right after removal
    for t in range(nticks):
        batch = []
        used = set()
        for (p_, k_) in recreate:
            if k_ in graveyard:
                graveyard.remove(k_)
            op = {'op': 'generate', 'coll': p_, 'key': k_, 'state': state(),
                  'resident': draw(resident_desc(inc_ok)) if residents
                  else None}
            batch.append(op)
            used.add(k_)
        recreate = []
        nops = draw(st.sampled_from([1, 1, 1, 2, 2, 3]))
        for _ in range(nops):
            kinds = ['add', 'generate']
            avail = {p: sorted(k for k in ref.coll(model, p)
                               if k != 'perm' and k not in used)
                     for p in PORTS}
            anyk = [p for p in PORTS if avail[p]]
            if anyk:
                kinds += ['delete', 'delete', 'move', 'divide', 'set']
            kind = draw(st.sampled_from(kinds))
            if kind == 'add':
                op = {'op': 'add', 'coll': draw(st.sampled_from(PORTS)),
                      'key': fresh(), 'state': state()}
                if draw(st.integers(0, 5)) == 0:
                    # add and delete one key in the same batch (additions
                    # first, deletions last: the key ends up absent)
                    batch.append(op)
                    used.add(op['key'])
                    batch.append({'op': 'delete', 'coll': op['coll'],
                                  'key': op['key'], 'form': 'key'})
                    continue
            elif kind == 'generate':
                op = {'op': 'generate', 'coll': draw(st.sampled_from(PORTS)),
                      'key': fresh(), 'state': state(), 'resident': None}
                if residents and draw(st.integers(0, 3)) > 0:
                    op['resident'] = draw(resident_desc(inc_ok))
            elif kind == 'delete':
                p = draw(st.sampled_from(anyk))
                k = draw(st.sampled_from(avail[p]))
                form = 'key'
                # known finding F09a lives in the tuple forms: only generated
                # in the last batch, so the history before it is fully checked
                last = tuple_delete and t == nticks - 1
                if last and draw(st.integers(0, 2)) == 0:
                    form = 'tuple'
                op = {'op': 'delete', 'coll': p, 'key': k, 'form': form}
                if last and p == 'g3' and draw(st.integers(0, 1)) == 0:
                    op = {'op': 'delete', 'coll': 'g1', 'key': k,
                          'form': 'deep'}
                if draw(st.integers(0, 4)) == 0 and op['form'] != 'deep':
                    # value update and deletion of one child in one batch
                    batch.append({'op': 'set', 'coll': p, 'key': k,
                                  'delta': {'x': draw(st.integers(1, 5))}})
            elif kind == 'set':
                p = draw(st.sampled_from(anyk))
                k = draw(st.sampled_from(avail[p]))
                var = draw(st.sampled_from(['x', 'y']))
                if ref.coll(model, p)[k].get(var) is None:
                    var = 'x'           # nothing can be added to an unset value
                op = {'op': 'set', 'coll': p, 'key': k,
                      'delta': {var: draw(st.integers(1, 9))}}
            elif kind == 'move':
                p = draw(st.sampled_from(anyk))
                k = draw(st.sampled_from(avail[p]))
                # (a key may live in two collections after a 'replace' pair:
                # never move a compartment onto an existing key)
                targets = [q for q in PORTS if q != p
                           and k not in ref.coll(model, q)]
                if not targets:
                    continue
                tgt = draw(st.sampled_from(targets))
                if tgt == 'g3' and draw(st.booleans()):
                    tgt = ['g1', 'perm', 'sub']     # extended target path
                op = {'op': 'move', 'coll': p, 'key': k, 'target': tgt,
                      'update': ({'x': draw(st.integers(1, 9))}
                                 if draw(st.integers(0, 2)) == 0 else None)}
                if replace_ok and k not in used and \
                        draw(st.integers(0, 3)) == 0:
                    # the old one leaves, a fresh one takes its place: a
                    # _generate of the same key in the same update (moves are
                    # carried out first)
                    batch.append({'op': 'generate', 'coll': p, 'key': k,
                                  'state': state(),
                                  'resident': draw(resident_desc(inc_ok))
                                  if residents and draw(st.booleans())
                                  else None})
            else:
                p = draw(st.sampled_from(anyk))
                k = draw(st.sampled_from(avail[p]))
                explicit = draw(st.booleans())
                op = {'op': 'divide', 'coll': p, 'mother': k,
                      'daughters': [fresh(), fresh()],
                      'explicit': explicit,
                      'states': [state() if draw(st.booleans()) else {},
                                 state() if draw(st.booleans()) else {}],
                      'resident': None}
                if explicit and residents and draw(st.booleans()):
                    op['resident'] = draw(resident_desc(inc_ok))
                # at most one _divide per collection and batch (update key)
                if any(o['op'] == 'divide' and o['coll'] == p for o in batch):
                    continue
            key = op.get('key') or op.get('mother')
            if key in used:
                continue
            used.add(key)
            used.update(op.get('daughters', []))
            batch.append(op)
            if op['op'] in ('delete', 'divide') and op.get('form', 'key') == \
                    'key' and t + 1 < nticks and draw(st.integers(0, 2)) == 0:
                # the same path comes back at the very next event
                recreate.append((op['coll'], key))
        if reject_ok and t == nticks - 1 and draw(st.integers(0, 7)) == 0:
            cands = [(p, k) for p in PORTS for k in ref.coll(model, p)
                     if k not in used]
            if cands:
                p, k = draw(st.sampled_from(cands))
                batch = [{'op': 'add_existing', 'coll': p, 'key': k,
                          'state': {}}]
                expect_reject = True
        if not expect_reject:
            before_keys = {k for p in PORTS for k in ref.coll(model, p)}
            ref.apply_batch(model, batch)
            after_keys = {k for p in PORTS for k in ref.coll(model, p)}
            for k in sorted(before_keys - after_keys):
                if k != 'perm' and k not in graveyard:
                    graveyard.append(k)
            graveyard[:] = [k for k in graveyard if k not in after_keys]
        ticks.append(batch)
    spec = {'init': init, 'residents': res0, 'ticks': ticks,
            'op_name': draw(st.sampled_from(['OP', 'AOP'])),
            'op_is_step': bool(step_op_ok and not expect_reject
                               and draw(st.integers(0, 3)) == 0),
            'viewers': [], 'expect_reject': expect_reject}
    # call chunking: the history runs in calls of these lengths (in ticks);
    # long calls leave residents' updates in flight when structure changes
    total = nticks + 1
    chunks = []
    while total > 0:
        c = draw(st.integers(1, total))
        chunks.append(c)
        total -= c
    spec['chunks'] = chunks
    if spec['op_is_step']:
        # the operator step issues one batch per step phase: keep exactly one
        # phase per simulated second (resident timesteps 1 or 2)
        for res in list(res0.values()) + [
                op['resident'] for b in ticks for op in b
                if op.get('resident')]:
            if res['ts'] not in (1.0, 2.0):
                res['ts'] = 1.0
    if anchor_ok and draw(st.booleans()):
        # residents also read a variable two levels above their compartment:
        # root/anchor from G1/k and G2/k, G1/perm/anchor from G1/perm/sub/k
        spec['anchor'] = True
        for res in list(res0.values()) + [
                op['resident'] for b in ticks for op in b
                if op.get('resident')]:
            res['anchor'] = True
    if viewers:
        for i in range(draw(st.integers(1, 3))):
            spec['viewers'].append({
                'name': 'V%d' % i,
                'port_on': draw(st.sampled_from(PORTS)),
                'vars': draw(st.sampled_from([['x'], ['x', 'y'], ['y']])),
                'ts': draw(st.sampled_from([1.0, 1.0, 2.0, 1.5, 0.5])),
                # viewer as a step: in the operator's layer ('free'), in a
                # later layer ('after': depends on the operator step or, when
                # the operator is a process, on the previous viewer step), or
                # as a flow-less deriver ('deriver')
                'as_step': draw(st.sampled_from(
                    [None, None, None, 'free', 'after', 'after',
                     'deriver']))})
    return spec


# ------------------------------------------------------------------ build

def initial_model(spec):
    model = {'G1': {'perm': ref.new_state({})}, 'G2': {}}
    model['G1']['perm']['sub'] = {}
    for port in PORTS:
        c = ref.coll(model, port)
        for k, v in spec['init'][port].items():
            c[k] = ref.new_state(v, spec['residents'].get(port + '/' + k))
    return model


def build(spec, ctx, parallel_names=()):
    """-> kwargs for Engine(...)"""
    processes, steps, flow, topology = {}, {}, {}, {}
    # the operator's name decides whether it sorts before or after the
    # compartments' steps within its layer ('AOP' < 'G1' < 'OP')
    op = spec.get('op_name', 'OP')
    if spec['op_is_step']:
        steps[op] = kit.OpStep({'name': op, 'run_id': ctx.run_id,
                                'script': copy.deepcopy(spec['ticks'])})
        flow[op] = []
        processes['TK'] = kit.TickProcess({'name': 'TK', 'run_id': ctx.run_id,
                                           'time_step': 1.0})
        topology['TK'] = {'clock': ('clock',)}
    else:
        processes[op] = kit.OpProcess({'name': op, 'run_id': ctx.run_id,
                                       'script': copy.deepcopy(spec['ticks'])})
    topology[op] = dict(kit.OP_TOPOLOGY)
    prev_step = op if spec['op_is_step'] else None
    for v in spec['viewers']:
        sub = {var: copy.deepcopy(kit.SUB_SCHEMA[var]) for var in v['vars']}
        params = {'name': v['name'], 'run_id': ctx.run_id,
                  'schema': {'view': {'*': sub}}, 'update': {},
                  'time_step': v['ts']}
        how = v.get('as_step')
        if how:
            steps[v['name']] = kit.WireStep(params)
            if how == 'free' or (how == 'after' and prev_step is None):
                flow[v['name']] = []
            elif how == 'after':
                flow[v['name']] = [(prev_step,)]
            if how != 'deriver':
                prev_step = v['name']
            if 'TK' not in processes:
                processes['TK'] = kit.TickProcess({
                    'name': 'TK', 'run_id': ctx.run_id, 'time_step': 1.0})
                topology['TK'] = {'clock': ('clock',)}
        else:
            processes[v['name']] = kit.WireProcess(params)
        topology[v['name']] = {'view': ref.PORT_PATH[v['port_on']]}
    state = {'G1': {'perm': {'sub': {}}}, 'G2': {}}
    if spec.get('anchor'):
        processes['ANC'] = kit.WireProcess({
            'name': 'ANC', 'run_id': 0, 'update': {}, 'time_step': 1.0,
            'schema': {'a1': {'v': {'_default': 111, '_emit': True}},
                       'a2': {'v': {'_default': 222, '_emit': True}}}})
        topology['ANC'] = {'a1': ('anchor',), 'a2': ('G1', 'perm', 'anchor')}
    for port in PORTS:
        path = ref.PORT_PATH[port]
        for k, vals in spec['init'][port].items():
            put(state, list(path) + [k], dict(vals))
            res = spec['residents'].get(port + '/' + k)
            if res:
                p, s, f, t = kit.resident_parts(
                    res, ctx.run_id,
                    parallel=(port + '/' + k) in parallel_names)
                put(processes, list(path) + [k], p)
                if s:
                    put(steps, list(path) + [k], s)
                    if f:
                        put(flow, list(path) + [k], f)
                put(topology, list(path) + [k], t)
    kwargs = dict(processes=processes, topology=topology, initial_state=state,
                  display_info=False, emitter=kit.emitter_config(ctx))
    if steps:
        kwargs.update(steps=steps, flow=flow)
    return kwargs


def hierarchy_values(engine):
    """Plain values of the collections, processes stripped."""
    whole = kit.plain_state(engine.state.get_value())
    return strip(whole)


_DROP = object()


def strip(tree):
    """Remove process entries; None-valued leaves are values and stay."""
    w = _strip(tree)
    return {} if w is _DROP else w


def _strip(tree):
    if isinstance(tree, dict):
        out = {}
        for k, v in tree.items():
            w = _strip(v)
            if w is not _DROP:
                out[k] = w
        return out
    if isinstance(tree, str) and tree.startswith('<process'):
        return _DROP
    return tree


def node_ids(store, path=()):
    out = {path: id(store)}
    for k, child in store.inner.items():
        out.update(node_ids(child, path + (k,)))
    return out


def wrong_paths(store, path=()):
    """[(walked path, path_for())] for every node whose path_for() is not the
    path it is found at (also a node of a subtree that was moved)."""
    out = []
    got = tuple(store.path_for())
    if got != tuple(path):
        out.append((path, got))
    for k, child in store.inner.items():
        out.extend(wrong_paths(child, path + (k,)))
    return out


def resident_names(engine):
    """{abs compartment path: sorted names of processes/steps stored there}"""
    from vivarium.core.process import Process
    out = {}

    def walk(store, path):
        for k, child in store.inner.items():
            if isinstance(child.value, Process):
                out.setdefault(path, []).append(k)
            else:
                walk(child, path + (k,))
    walk(engine.state, ())
    return {p: sorted(v) for p, v in out.items()}


def expected_resident_names(model):
    out = {}
    for path, res in ref.residents(model).items():
        names = ['grow']
        if res.get('step'):
            names.append('obs')
            if res.get('chain'):
                names.append('obs2')
        if res.get('deriver'):
            names.append('der')
        out[path] = sorted(names)
    return out


def classify(spec, res):
    kinds = set()
    for batch in spec['ticks']:
        for op in batch:
            kinds.add(op['op'])
            res.label('op.' + op['op'])
            if op['op'] == 'delete':
                res.label('delete.' + op.get('form', 'key'))
            if op['op'] == 'divide':
                res.label('divide.explicit' if op['explicit']
                          else 'divide.copy_mother')
            if op['op'] == 'move' and not isinstance(op['target'], str):
                res.label('move.extended')
            if op['op'] == 'generate' and not op.get('resident'):
                res.label('generate.no_process')
            if op.get('coll') == 'g3' or op.get('form') == 'deep':
                res.label('nested_target')
        if len(batch) > 1:
            res.label('combined_batch')
    if spec['op_is_step']:
        res.label('op_is_step')
    n = sum(len(b) for b in spec['ticks'])
    return kinds, n


# ------------------------------------------------------------------ runners

def run_model(spec, res):
    """C09: after every tick the hierarchy equals the reference model, nodes
    not touched keep their identity."""
    from vivarium.core.engine import Engine
    kinds, n = classify(spec, res)
    res.nontrivial = (n >= 3 and len(kinds) >= 2) or \
        'combined_batch' in res.labels or 'nested_target' in res.labels
    ctx = kit.Context()
    try:
        engine = Engine(**build(spec, ctx))
        ctx.engine = engine
        model = initial_model(spec)
        offset = 0
        if spec['op_is_step']:
            # the step's first batch is issued during construction
            if not compare_tick(spec, res, engine, model, 0, None,
                                during_construction=True):
                return
            offset = 1
        else:
            d = deq(strip_collections(hierarchy_values(engine)),
                    ref.values(model))
            if d:
                res.fail('initial', 'hierarchy after construction differs '
                         'from the initial state: %s' % d)
                return
        for t in range(offset, len(spec['ticks'])):
            ids_before = node_ids(engine.state)
            last = t == len(spec['ticks']) - 1
            if last and spec['expect_reject']:
                try:
                    engine.update(1)
                    # an operator process's batch is applied one tick later
                    engine.update(1)
                except Exception:
                    res.label('rejected.add_existing')
                    return
                res.fail('add_existing.accepted', 'adding the existing key %r '
                         'was not rejected' % spec['ticks'][t][0]['key'],
                         'store.py:add')
                return
            if spec['op_is_step']:
                engine.update(1)
            else:
                # batch t is computed at tick t and applied at tick t+1
                engine.update(1)
            if not compare_tick(spec, res, engine, model, t, ids_before):
                return
    finally:
        ctx.close()


def strip_collections(values):
    return {k: v for k, v in values.items() if k in ('G1', 'G2')}


def compare_tick(spec, res, engine, model, t, ids_before,
                 during_construction=False):
    batch = spec['ticks'][t]
    before = copy.deepcopy(model)
    ref.apply_batch(model, batch)
    got = strip_collections(hierarchy_values(engine))
    want = ref.values(model)
    d = deq(got, want)
    if d:
        res.fail('hierarchy', 'after batch %d %r: %s\n  hierarchy %r\n  '
                 'expected  %r' % (t, batch, d, got, want), 'store.py:apply_update')
        return False
    names = {p: v for p, v in resident_names(engine).items() if p}
    want_names = expected_resident_names(model)
    if names != want_names:
        res.fail('residents', 'after batch %d %r: processes/steps in the '
                 'hierarchy %r, expected %r' % (t, batch, names, want_names),
                 'store.py:apply_update')
        return False
    bad = wrong_paths(engine.state)
    if bad:
        res.fail('path_for', 'after batch %d %r: node found at %r reports '
                 'path_for() = %r' % (t, batch, bad[0][0], bad[0][1]),
                 'store.py:path_for')
        return False
    if ids_before is not None:
        # identity: every node that exists before and after, and is not below
        # a deleted/divided child, keeps its Store object; moved subtrees too
        ids_after = node_ids(engine.state)
        moved = {}
        for op in batch:
            if op['op'] == 'move':
                src = ref.PORT_PATH[op['coll']] + (op['key'],)
                tgt = op['target']
                dst = (ref.PORT_PATH[tgt] if isinstance(tgt, str) else
                       ref.PORT_PATH[tgt[0]] + tuple(tgt[1:])) + (op['key'],)
                moved[src] = dst
        for path, ident in ids_before.items():
            newpath = path
            for src, dst in moved.items():
                if path[:len(src)] == src:
                    newpath = dst + path[len(src):]
            if newpath in ids_after and ids_after[newpath] != ident:
                # allowed only if the node was deleted and re-created
                recreated = any(
                    op['op'] in ('delete', 'divide') and
                    touches(op, path) for op in batch)
                if not recreated:
                    res.fail('identity', 'after batch %d %r: node %r was '
                             'replaced by a new Store object' % (t, batch, path),
                             'store.py:apply_update')
                    return False
    return True


def touches(op, path):
    if op['op'] == 'delete':
        base = ref.PORT_PATH['g3'] if op.get('form') == 'deep' \
            else ref.PORT_PATH[op['coll']]
        p = base + (op['key'],)
    else:
        p = ref.PORT_PATH[op['coll']] + (op['mother'],)
    return path[:len(p)] == p


def run_views(spec, res):
    """C07 (structural): every callback of every viewer sees the projection of
    the hierarchy at that moment."""
    from vivarium.core.engine import Engine
    kinds, n = classify(spec, res)
    ctx = kit.Context()
    ctx.snap = True
    try:
        engine = Engine(**build(spec, ctx))
        ctx.engine = engine
        for c in spec.get('chunks') or [1] * (len(spec['ticks']) + 1):
            engine.update(c)
        engine.update(1)
        viewers = {v['name']: v for v in spec['viewers']}
        calls = {}
        op_times = [ev[2] for ev in ctx.log if ev[0] == 'op' and ev[4]]
        for ev in ctx.log:
            if ev[0] in ('invoke', 'view.timestep', 'view.condition') \
                    and ev[1] in viewers:
                v = viewers[ev[1]]
                states, whole = ev[5], ev[6]
                if whole is None:
                    continue      # the construction phase: no engine yet
                if v.get('as_step'):
                    res.label('viewer_step.' + v['as_step'])
                coll = getp(whole, list(ref.PORT_PATH[v['port_on']]), {})
                want = {}
                for child, cval in coll.items():
                    if isinstance(cval, str):
                        continue
                    want[child] = {var: getp(cval, [var], KeyError)
                                   for var in v['vars']}
                d = deq(states, {'view': want})
                calls.setdefault(ev[1], []).append(ev[2])
                if d:
                    res.fail('view', '%s of %s at t=%r: states %r, hierarchy '
                             'projection %r: %s' % (ev[0], ev[1], ev[2], states,
                                                    {'view': want}, d),
                             'store.py:build_topology_views')
                    return
        # residents: a compartment's own process sees its own compartment,
        # also after the compartment was moved or created by a division
        for ev in ctx.log:
            if ev[0] == 'invoke' and ev[1] == 'grow' and ev[6] is not None:
                path, vals = ev[6]
                if deq(ev[5], vals):
                    res.fail('view.resident', 'resident process of %r at t=%r '
                             'sees %r, its compartment holds %r'
                             % (path, ev[2], ev[5], vals),
                             'store.py:build_topology_views')
                    return
                res.label('resident_view')
                if 'anchor' in vals:
                    res.label('resident_view.anchor_at_depth_%d' % len(path))
        # ... and so do the compartment's own steps (also a step re-created
        # under the path of a deleted one)
        for ev in ctx.log:
            if ev[0] == 'step' and ev[1] in ('obs', 'obs2', 'der') \
                    and ev[6] is not None:
                path, vals = ev[6]
                want = {'x': vals.get('x', 'MISSING')}
                if deq(ev[5], want):
                    res.fail('view.resident_step', 'step %s of %r at t=%r sees '
                             '%r, its compartment holds %r'
                             % (ev[1], path, ev[2], ev[5], want),
                             'engine.py:_process_state')
                    return
                res.label('resident_step_view')
        res.nontrivial = bool(op_times) and any(
            len(set(ts)) >= 2 for ts in calls.values())
        if not calls:
            res.fail('not_polled', 'no viewer callback recorded')
    finally:
        ctx.close()

"""Small helpers shared by property modules (numpy/pint aware equality)."""
import math


def deq(a, b, rel=0.0):
    """Deep equality that understands numpy arrays and pint quantities.
    Returns None when equal, else a short description."""
    import numpy as np
    try:
        from pint import Quantity
    except Exception:           # pragma: no cover
        Quantity = ()
    if isinstance(a, Quantity) or isinstance(b, Quantity):
        if not (isinstance(a, Quantity) and isinstance(b, Quantity)):
            return '%r vs %r (quantity/non-quantity)' % (a, b)
        if a.units != b.units:
            return 'units %s vs %s' % (a.units, b.units)
        return deq(a.magnitude, b.magnitude, rel)
    if isinstance(a, np.ndarray) or isinstance(b, np.ndarray):
        if not (isinstance(a, np.ndarray) and isinstance(b, np.ndarray)):
            return '%r vs %r (array/non-array)' % (a, b)
        if a.shape != b.shape:
            return 'shape %r vs %r' % (a.shape, b.shape)
        if rel:
            ok = np.allclose(a, b, rtol=rel, atol=0, equal_nan=True)
        else:
            ok = np.array_equal(a, b)
        return None if ok else '%r vs %r' % (a, b)
    if isinstance(a, dict) and isinstance(b, dict):
        if set(a) != set(b):
            return 'keys %r vs %r' % (sorted(map(str, a)), sorted(map(str, b)))
        for k in a:
            d = deq(a[k], b[k], rel)
            if d:
                return '%s: %s' % (k, d)
        return None
    if isinstance(a, (list, tuple)) and isinstance(b, (list, tuple)):
        if type(a) is not type(b) or len(a) != len(b):
            return '%r vs %r' % (a, b)
        for i, (x, y) in enumerate(zip(a, b)):
            d = deq(x, y, rel)
            if d:
                return '[%d]: %s' % (i, d)
        return None
    if isinstance(a, (bool, np.bool_)) != isinstance(b, (bool, np.bool_)):
        return '%r vs %r (bool/non-bool)' % (a, b)
    num = (int, float, np.integer, np.floating)
    if isinstance(a, num) and isinstance(b, num):
        fa, fb = float(a), float(b)
        if math.isnan(fa) and math.isnan(fb):
            return None
        if rel and fa != fb:
            ok = abs(fa - fb) <= rel * max(abs(fa), abs(fb))
        else:
            ok = a == b
        return None if ok else '%r vs %r' % (a, b)
    try:
        ok = bool(a == b)
    except Exception:
        ok = a is b
    return None if ok else '%r vs %r' % (a, b)


def tree_leaves(tree, path=()):
    """[(path, value)] over a nested dict (non-dict values are leaves)."""
    if isinstance(tree, dict):
        out = []
        for k, v in tree.items():
            out.extend(tree_leaves(v, path + (k,)))
        return out
    return [(path, tree)]


def nest(path, value):
    """{'a': {'b': value}} for path ('a','b')."""
    for seg in reversed(path):
        value = {seg: value}
    return value


def put(tree, path, value):
    cur = tree
    for seg in path[:-1]:
        cur = cur.setdefault(seg, {})
    cur[path[-1]] = value
    return tree


def getp(tree, path, default=KeyError):
    cur = tree
    for seg in path:
        if not isinstance(cur, dict) or seg not in cur:
            return default
        cur = cur[seg]
    return cur

"""Shared machinery of the scheduler family (C01-C04): spec generator, executor
and log parser.

Spec:
 {'t0': number, 'precision': None|int, 'emit_step': number,
  'procs': [{'name', 'ts': [...], 'ts_mode': 'invocation'|'poll',
             'cond': None|[bool...]}],
  'steps': int,                       # bystander steps
  'calls': [{'op': 'run_for'|'update', 'interval': x, 'force': bool}]}
"""
from hypothesis import strategies as st

from vv import kit
from vv.core import exc_violation, innermost_is_harness, CaseTimeout


# ------------------------------------------------------------------ strategy

def grid(draw, unit, lo, hi):
    return draw(st.integers(lo, hi)) * unit


@st.composite
def sched_specs(draw, quiet=True, adaptive=False, force_last=False,
                empty_ok=False, all_quiet_ok=False, precisions=(None,),
                max_procs=4, steps_ok=True, state_cond=False, twin_ok=False,
                deep=False, emit_steps=(1,), heavy_one_in=5, decimal_ok=False,
                big_t0_ok=False):
    # deep (thorough tier): a third of the cases may have up to two more
    # processes and up to 8 calls
    big = bool(deep) and draw(st.integers(0, 2)) == 0
    if big:
        max_procs += 2
    precision = draw(st.sampled_from(list(precisions)))
    if precision is None:
        unit = 0.25
        if decimal_ok and draw(st.integers(0, 3)) == 0:
            # decimal times without a precision: sums of floats
            # (0.1 + 0.1 + 0.1 != 0.3), compared with the same float sums
            unit = 0.1

        def tval(k):
            return k * unit
        ks = st.integers(1, 16)
    else:
        unit = 10 ** -precision

        def tval(k):
            return round(k * unit, precision)
        ks = st.integers(1, 40 if precision == 1 else 300)
    nprocs = draw(st.integers(0 if empty_ok else 1, max_procs))
    # quiet-heavy cases: several processes with condition scripts and short,
    # mostly un-forced calls (several processes are quiet in one pass that
    # ends without an event, and wake up in a later call)
    heavy = bool(quiet) and draw(st.integers(0, heavy_one_in - 1)) == 0
    if heavy:
        nprocs = max(nprocs, min(3, max_procs))
    procs = []
    for i in range(nprocs):
        if adaptive and draw(st.booleans()):
            n = draw(st.integers(2, 6))
            ts = [tval(draw(ks)) for _ in range(n)]
            mode = draw(st.sampled_from(['poll', 'invocation']))
        elif draw(st.integers(0, 3)) == 0:
            n = draw(st.integers(2, 4))
            ts = [tval(draw(ks)) for _ in range(n)]
            mode = 'invocation'
        else:
            ts = [tval(draw(ks))]
            mode = 'invocation'
        cond = None
        if quiet and (draw(st.integers(0, 2)) == 0 or (heavy and i > 0)):
            n = draw(st.integers(1, 8))
            cond = [draw(st.integers(0, 9)) >= 4 for _ in range(n)]
            if not all_quiet_ok or draw(st.integers(0, 3)) > 0:
                cond.append(True)       # eventually runs
        proc = {'name': 'p%d' % i, 'ts': ts, 'ts_mode': mode, 'cond': cond}
        if twin_ok and draw(st.integers(0, 3)) == 0:
            proc['twin'] = True
        if quiet and state_cond and cond is None and \
                draw(st.integers(0, 3)) == 0:
            # condition read from the state (vivarium's _condition), driven
            # by a toggler process
            n = draw(st.integers(1, 6))
            proc['cond_state'] = [draw(st.booleans()) for _ in range(n)] + \
                [True]
        procs.append(proc)
    if quiet and not all_quiet_ok and procs and \
            all(p['cond'] is not None for p in procs):
        procs[0]['cond'] = None         # C01: never everybody quiet forever
    ncalls = draw(st.integers(1, 8 if big else 5))
    if heavy:
        ncalls = max(ncalls, 3)
    calls = []
    for j in range(ncalls):
        interval = tval(draw(st.integers(1, 32 if precision is None else
                                         (60 if precision == 1 else 400))))
        op = draw(st.sampled_from(['run_for', 'run_for', 'update']))
        if heavy and j < ncalls - 1:
            op = 'run_for'
            interval = tval(draw(st.integers(1, 6)))
        force = True if op == 'update' else draw(st.integers(0, 3)) == 0
        calls.append({'op': op, 'interval': interval, 'force': force})
    if force_last:
        calls[-1]['force'] = True
    t0 = draw(st.sampled_from([0, 0, 0, tval(draw(st.integers(1, 8)))]))
    if big_t0_ok and precision is None and unit == 0.25 and \
            draw(st.integers(0, 7)) == 0:
        # a large absolute clock (e.g. a unix time stamp): quarter steps are
        # still exact, but anything relative to the clock value is not small
        t0 = draw(st.sampled_from([2 ** 30, 1600000000]))
    nsteps = draw(st.integers(0, 2)) if steps_ok else 0
    emit_step = draw(st.sampled_from(list(emit_steps))) \
        if len(emit_steps) > 1 else emit_steps[0]
    spec = {'t0': t0, 'precision': precision, 'emit_step': emit_step,
            'procs': procs, 'steps': nsteps, 'calls': calls}
    if any(p.get('cond_state') for p in procs):
        spec['toggle_ts'] = tval(draw(ks))
    if precision is None and unit == 0.1:
        spec['decimal'] = True      # times are inexact float sums
    return spec


# ------------------------------------------------------------------ execution

def poll_budget(spec):
    procs = spec['procs']
    taus = [t for p in procs for t in p['ts']]
    if spec.get('toggle_ts'):
        taus.append(spec['toggle_ts'])
    mint = min(taus) if taus else 1.0
    total = sum(c['interval'] for c in spec['calls'])
    scripts = sum(len(p['ts']) + len(p['cond'] or []) for p in procs)
    passes = total / mint * max(1, len(procs)) + scripts + 2 * len(spec['calls']) + 4
    return int(20 * (len(procs) + 1) * passes)


def build(spec, ctx, parallel=()):
    processes, topology = {}, {}
    for p in spec['procs']:
        params = {'name': p['name'], 'run_id': ctx.run_id, 'ts': list(p['ts']),
                  'ts_mode': p['ts_mode'], 'cond': p['cond']}
        if p['name'] in parallel:
            params['_parallel'] = True
        topology[p['name']] = {'own': ('own', p['name']), 'shared': ('shared',)}
        if p.get('cond_state'):
            params['_condition'] = ('flags', p['name'])
            topology[p['name']]['flags'] = ('flags',)
        if p.get('twin'):
            params['twin'] = True
            topology[p['name']]['ta'] = ('twin',)
            topology[p['name']]['tb'] = ('twin',)
        processes[p['name']] = kit.RecProcess(params)
    scripts = {p['name']: p['cond_state'] for p in spec['procs']
               if p.get('cond_state')}
    if scripts:
        processes['toggler'] = kit.Toggler({
            'name': 'toggler', 'run_id': ctx.run_id, 'scripts': scripts,
            'time_step': spec.get('toggle_ts', 1.0)})
        topology['toggler'] = {'flags': ('flags',)}
    steps = {}
    for i in range(spec.get('steps', 0)):
        name = 's%d' % i
        steps[name] = kit.RecStep({'name': name, 'run_id': ctx.run_id})
        topology[name] = {'own': ('own', name), 'shared': ('shared',),
                          'layer': ('layer',)}
    return processes, steps, topology


def execute(spec, snap=False, ctx=None, extra=None, engine_kwargs=None):
    """Run the spec.  -> (ctx, engine, failure) where failure is None or a
    Violation for an exception / non-termination.  The caller closes ctx."""
    from vivarium.core.engine import Engine
    if ctx is None:
        ctx = kit.Context(t0=spec['t0'], budget=poll_budget(spec))
    ctx.snap = snap
    failure = None
    engine = None
    try:
        processes, steps, topology = build(spec, ctx)
        if extra is not None:
            extra(processes, steps, topology)
        flow = {name: [] for name in steps}
        kwargs = dict(processes=processes, topology=topology,
                      emitter=kit.emitter_config(ctx), display_info=False,
                      initial_global_time=spec['t0'],
                      global_time_precision=spec['precision'],
                      emit_step=spec.get('emit_step', 1))
        if steps:
            kwargs.update(steps=steps, flow=flow)
        if not processes and not steps:
            # an Engine needs something to load: a single step-free dummy store
            from vivarium.core.composer import Composite
            kwargs.pop('processes')
            kwargs.pop('topology')
            kwargs['composite'] = Composite({'processes': {}, 'topology': {},
                                             'steps': {}, 'flow': {}})
        if engine_kwargs:
            kwargs.update(engine_kwargs)
        engine = Engine(**kwargs)
        ctx.engine = engine
        for i, call in enumerate(spec['calls']):
            start = engine.global_time
            ctx.rec('call', i, start, call['interval'], call['force'], call['op'])
            if call['op'] == 'update':
                engine.update(call['interval'])
            else:
                engine.run_for(call['interval'], force_complete=call['force'])
            ctx.rec('return', i, engine.global_time)
    except kit.PollBudgetExceeded as e:
        from vv.core import Violation
        failure = Violation('nontermination', str(e), 'engine.py:run_for')
    except CaseTimeout:
        raise
    except Exception as e:
        if innermost_is_harness(e):
            raise
        failure = exc_violation(e)
    return ctx, engine, failure


# ------------------------------------------------------------------ log parsing

class Poll:
    __slots__ = ('seq', 't', 'tau', 'cond', 'arg', 'token', 'call', 'states',
                 'cond_arg')

    def __init__(self, seq, t, tau, call):
        self.seq, self.t, self.tau, self.call = seq, t, tau, call
        self.cond = None
        self.cond_arg = None
        self.arg = None
        self.token = None
        self.states = None


def parse(ctx, spec=None):
    """-> dict with per-process poll records, applies, emits, calls."""
    precision = spec.get('precision') if spec else None
    polls = {}
    last = {}
    applies = []     # (seq, tag, t, value)
    emits = []       # (seq, table, t_engine, data, whole)
    steps = []       # (seq, name, t, arg, token, states)
    calls = []       # {'idx','start','interval','force','op','end','ret'}
    cur = None
    for seq, ev in enumerate(ctx.log):
        kind = ev[0]
        if kind == 'call':
            cur = {'idx': ev[1], 'start': ev[2], 'interval': ev[3],
                   'force': ev[4], 'op': ev[5],
                   'end': rnd(ev[2] + ev[3], precision),
                   'ret': None, 'seq': seq}
            calls.append(cur)
        elif kind == 'return':
            cur['ret'] = ev[2]
            cur['ret_seq'] = seq
        elif kind == 'poll':
            rec = Poll(seq, ev[2], ev[3], cur['idx'] if cur else None)
            polls.setdefault(ev[1], []).append(rec)
            last[ev[1]] = rec
        elif kind == 'cond':
            rec = last[ev[1]]
            rec.cond = ev[4]
            rec.cond_arg = ev[3]
        elif kind == 'invoke':
            rec = last[ev[1]]
            rec.arg, rec.token, rec.states = ev[3], ev[4], ev[5]
        elif kind == 'apply':
            applies.append((seq, ev[1], ev[2], ev[3]))
        elif kind == 'emit':
            emits.append((seq, ev[1], ev[2], ev[3], ev[4]))
        elif kind == 'step':
            steps.append((seq, ev[1], ev[2], ev[3], ev[4], ev[5]))
    return {'polls': polls, 'applies': applies, 'emits': emits,
            'steps': steps, 'calls': calls}


def rnd(x, precision):
    return x if precision is None else round(x, precision)


def intervals(spec, parsed, res=None):
    """Per process: list of dicts {start,end,tau,arg,token,truncated,poll}.

    start of an interval = end of the previous one (or entry time t0); after a
    quiet poll the process has been advanced with the clock, so the next
    interval starts at the global time of the first poll that follows.
    Labels the unspecified class 'sched.repoll_past' (a deferred process that,
    re-polled, asks for an interval ending before the current global time)."""
    p = spec['precision']
    callmap = {c['idx']: c for c in parsed['calls']}
    out = {}
    for name, polls in parsed['polls'].items():
        start = spec['t0']
        quiet = False
        ivs = []
        for rec in polls:
            if quiet:
                start = rec.t
                quiet = False
            call = callmap.get(rec.call)
            future = rnd(start + rec.tau, p)
            if future < rec.t and res is not None:
                res.label('sched.repoll_past')
            if rec.cond is False:
                quiet = True
                continue
            if rec.token is None:
                continue                 # deferred
            truncated = False
            if call is not None and call['force'] and future > call['end']:
                future = call['end']
                truncated = True
            ivs.append({'start': start, 'end': future, 'tau': rec.tau,
                        'arg': rec.arg, 'token': rec.token,
                        'truncated': truncated, 'poll': rec})
            start = future
        out[name] = ivs
    return out

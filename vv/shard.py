"""One shard of a check: a single-process Hypothesis run over prop.strategy.

usage: python -m vv.shard <ID> <tier> <seed> <shard> <nshards> <outfile>
Writes a JSON summary to <outfile>; exit 0 always unless the harness itself
broke (exit 2).  Violations are reported in the summary, the parent decides.
"""
import collections
import json
import os
import sys
import time
import zlib

from vv import core, findings
from vv.core import Result, Violation, CaseTimeout, canon, spec_hash

SHRINK_BUDGET = {'quick': 250, 'thorough': 1500}
MAX_HASHES = 200000


class PropertyFailure(Exception):
    pass


def execute(prop, spec, timeout=None):
    """Run one case under the watchdog.  Returns a Result."""
    timeout = timeout or getattr(prop, 'CASE_TIMEOUT', 10)
    try:
        with core.watchdog(timeout):
            return prop.run_case(spec)
    except CaseTimeout:
        pass
    # confirm once with a doubled allowance
    try:
        with core.watchdog(2 * timeout):
            return prop.run_case(spec)
    except CaseTimeout:
        res = Result()
        if getattr(prop, 'HANG_IS_VIOLATION', False):
            res.fail('hang', 'case did not return within %ss (confirmed twice)'
                     % (2 * timeout))
            res.label('hang')
            return res
        raise core.HarnessError('case hung (property does not cover hangs): '
                                + canon(spec)[:500])


def split_known(prop, known, spec, res):
    """-> (unmatched violations, {finding id: count})"""
    unmatched, matched = [], collections.Counter()
    for v in res.violations:
        hit = None
        for f in known:
            pred = prop.SIGNATURES.get(f.signature)
            if pred is not None and pred(spec, v, res):
                hit = f.fid
                break
        if hit:
            matched[hit] += 1
        else:
            unmatched.append(v)
    return unmatched, matched


class Collector:
    def __init__(self, prop, tier):
        self.prop, self.tier = prop, tier
        self.known = findings.load(prop.ID)
        self.evals = 0
        self.rejected = 0
        self.hashes = set()
        self.labels = collections.Counter()
        self.excluded = collections.Counter()
        self.samples = []
        self.failure = None        # (size, spec, [violations])
        self.buckets = collections.Counter()
        self.post_fail = 0
        self.harness_error = None
        self.exhaustive = False

    def feed(self, spec, res):
        """Record one executed case.  Returns list of unmatched violations."""
        self.evals += 1
        if res.rejected:
            self.rejected += 1
        for lab in res.labels:
            self.labels[lab] += 1
        if res.nontrivial and len(self.hashes) < MAX_HASHES:
            h = spec_hash(spec)
            if h not in self.hashes:
                self.hashes.add(h)
                if len(self.samples) < 4:
                    self.samples.append(spec)
        unmatched, matched = split_known(self.prop, self.known, spec, res)
        for fid, n in matched.items():
            self.excluded[fid] += 1
        if unmatched:
            for v in unmatched:
                self.buckets[v.bucket()] += 1
            size = len(canon(spec))
            if self.failure is None or size < self.failure[0]:
                self.failure = (size, spec, unmatched)
        return unmatched

    def summary(self):
        out = {
            'evaluations': self.evals,
            'rejected': self.rejected,
            'hashes': sorted(self.hashes),
            'labels': dict(self.labels),
            'excluded_known': dict(self.excluded),
            'samples': self.samples,
            'buckets': dict(self.buckets),
            'exhaustive': self.exhaustive,
            'failure': None,
            'harness_error': self.harness_error,
        }
        if self.failure:
            out['failure'] = {
                'spec': self.failure[1],
                'violations': [v.to_json() for v in self.failure[2]]}
        return out


def run_hypothesis(prop, tier, seed, col, ncases):
    import hypothesis
    from hypothesis import given, settings, HealthCheck, Phase

    budget = SHRINK_BUDGET[tier]

    def body(spec):
        if col.harness_error is not None:
            return
        if col.failure is not None:
            col.post_fail += 1
            if col.post_fail > budget:
                return
        try:
            res = execute(prop, spec)
        except core.HarnessError as e:
            col.harness_error = str(e)
            return
        except Exception as e:       # bug in the harness, not a violation
            col.harness_error = core.format_exc(e)
            return
        bad = col.feed(spec, res)
        if bad:
            if any(v.kind == 'hang' for v in bad):
                col.post_fail = budget + 1      # never shrink through hangs
            raise PropertyFailure()

    test = given(prop.strategy(tier))(body)
    test = hypothesis.seed(seed)(test)
    test = settings(
        max_examples=ncases, database=None, deadline=None,
        derandomize=False, report_multiple_bugs=False,
        suppress_health_check=list(HealthCheck),
        phases=[Phase.generate, Phase.shrink],
        print_blob=False, verbosity=hypothesis.Verbosity.quiet)(test)
    try:
        test()
    except PropertyFailure:
        pass
    except hypothesis.errors.HypothesisException as e:
        # Flaky after the shrink budget ran out is expected; anything else
        # with no recorded failure is a generator problem.
        if col.failure is None and col.harness_error is None:
            col.harness_error = 'hypothesis: %r' % (e,)
    except BaseException as e:   # e.g. ExceptionGroup wrapping ours
        if col.failure is None and col.harness_error is None:
            col.harness_error = core.format_exc(e)


def main(argv):
    pid, tier, seed, idx, n, out = argv
    seed, idx, n = int(seed), int(idx), int(n)
    core.silence()
    core.assert_repo()
    prop = core.load_prop(pid)
    col = Collector(prop, tier)
    t0 = time.time()
    shard_seed = (seed * 1000003 + idx * 7919
                  + zlib.crc32(pid.encode())) % (2 ** 32)
    try:
        extra = getattr(prop, 'extra', None)
        if extra is not None:
            for spec, res in extra(tier, shard_seed, idx, n, col):
                col.feed(spec, res)
        ncases = prop.CASES[tier]
        if os.environ.get('VV_CASES'):      # development: a shorter run
            ncases = int(os.environ['VV_CASES'])
        if ncases and col.failure is None:
            run_hypothesis(prop, tier, shard_seed, col, ncases)
    except Exception as e:
        col.harness_error = core.format_exc(e)
    summ = col.summary()
    summ['shard'] = idx
    summ['shard_seed'] = shard_seed
    summ['wall_s'] = time.time() - t0
    with open(out, 'w') as f:
        json.dump(summ, f, default=repr)
    teardown = getattr(prop, 'shard_teardown', None)
    if teardown:
        teardown()
    sys.stdout.flush()
    os._exit(2 if col.harness_error else 0)


if __name__ == '__main__':
    main(sys.argv[1:])

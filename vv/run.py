"""CLI of every check:  ./check <ID> quick|thorough [--replay file]

exit 0  property held on everything explored (KNOWN-FINDING lines allowed)
exit 1  `VIOLATION property=<id> replay=<path>` printed
exit 2  `HARNESS-ERROR ...` (the check itself is broken; nothing is claimed)
"""
import collections
import json
import os
import shutil
import subprocess
import sys
import time

from vv import core, findings
from vv.core import VERIF, canon, spec_hash
from vv.shard import execute, split_known

SHARD_TIMEOUT = {'quick': 900, 'thorough': 4 * 3600}


def load_replay(path):
    with open(path) as f:
        doc = json.load(f)
    return doc.get('spec', doc), doc


def write_found(pid, spec, violations, note=''):
    d = os.path.join(VERIF, 'found', pid)
    os.makedirs(d, exist_ok=True)
    path = os.path.join(d, 'found-%s.json' % spec_hash(spec))
    with open(path, 'w') as f:
        json.dump({'property': pid, 'spec': spec,
                   'violations': violations, 'note': note}, f, indent=1,
                  default=repr)
    return path


def replay_one(prop, path, known):
    """-> (unmatched violations, matched finding ids, Result)"""
    spec, _doc = load_replay(path)
    res = execute(prop, spec)
    unmatched, matched = split_known(prop, known, spec, res)
    return unmatched, matched, res


def main(argv):
    if len(argv) < 2:
        print('usage: check <ID> quick|thorough [--replay file]')
        return 2
    pid, tier = argv[0].upper(), argv[1]
    seed = int(os.environ.get('VERIF_SEED', '1') or 1)
    t0 = time.time()
    core.silence()
    try:
        core.assert_repo()
        prop = core.load_prop(pid)
    except Exception as e:
        print('HARNESS-ERROR property=%s import: %s' % (pid, core.format_exc(e)))
        return 2
    known = findings.load(pid)

    # ---- explicit replay ------------------------------------------------
    if '--replay' in argv:
        path = argv[argv.index('--replay') + 1]
        try:
            unmatched, matched, res = replay_one(prop, path, known)
        except Exception as e:
            print('HARNESS-ERROR property=%s replay: %s' % (pid, core.format_exc(e)))
            return 2
        for v in res.violations:
            print('  ', v)
        for fid in matched:
            print('KNOWN-FINDING: property=%s %s' % (pid, fid))
        if unmatched:
            print('VIOLATION property=%s replay=%s' % (pid, path))
            return 1
        print('replay passed: %s' % path)
        return 0

    # ---- regression tier: committed replays -------------------------------
    violations = []          # (replay path, [violation json])
    replayed = 0
    known_seen = collections.OrderedDict()
    rdir = os.path.join(VERIF, 'replays', pid)
    files = sorted(os.listdir(rdir)) if os.path.isdir(rdir) else []
    canonical = {os.path.normpath(os.path.join(VERIF, f.replay)): f
                 for f in known if f.replay}
    for name in files:
        if not name.endswith('.json'):
            continue
        path = os.path.join(rdir, name)
        try:
            unmatched, matched, res = replay_one(prop, path, known)
        except Exception as e:
            print('HARNESS-ERROR property=%s replay %s: %s'
                  % (pid, name, core.format_exc(e)))
            return 2
        replayed += 1
        f = canonical.get(os.path.normpath(path))
        if f is not None and f.fid in matched:
            known_seen[f.fid] = f
        if unmatched:
            violations.append((os.path.relpath(path, VERIF),
                               [v.to_json() for v in unmatched]))

    # ---- generated search, sharded -----------------------------------------
    nshards = getattr(prop, 'SHARDS', {}).get(
        tier, 8 if tier == 'quick' else 16)
    sdir = os.path.join(VERIF, '.shards', '%s-%s-%d' % (pid, tier, os.getpid()))
    os.makedirs(sdir, exist_ok=True)
    procs = []
    env = dict(os.environ)
    for i in range(nshards):
        out = os.path.join(sdir, 'shard%d.json' % i)
        log = open(os.path.join(sdir, 'shard%d.log' % i), 'w')
        p = subprocess.Popen(
            [sys.executable, '-m', 'vv.shard', pid, tier, str(seed),
             str(i), str(nshards), out],
            stdout=log, stderr=subprocess.STDOUT, env=env, cwd=VERIF)
        procs.append((p, out, log))
    deadline = time.time() + SHARD_TIMEOUT[tier]
    harness_errors = []
    summaries = []
    for p, out, log in procs:
        try:
            p.wait(timeout=max(1, deadline - time.time()))
        except subprocess.TimeoutExpired:
            p.kill()
            p.wait()
            harness_errors.append('shard timed out (inconclusive): ' + out)
        log.close()
        if os.path.exists(out):
            with open(out) as f:
                summaries.append(json.load(f))
        elif not harness_errors or 'timed out' not in harness_errors[-1]:
            tail = open(log.name).read()[-1500:]
            harness_errors.append('shard wrote no summary: %s\n%s' % (out, tail))

    # ---- coverage-guided fuzzing (thorough tier, properties that opt in) ----
    fuzz_note = None
    fuzz_runs = getattr(prop, 'FUZZ_RUNS', 0) if tier == 'thorough' else 0
    if fuzz_runs and os.environ.get('VV_FUZZ_RUNS'):
        fuzz_runs = int(os.environ['VV_FUZZ_RUNS'])
    if fuzz_runs and not harness_errors:
        try:
            sys.path.append(os.path.join(VERIF, '.deps'))
            import atheris  # noqa: F401
            have = True
        except Exception as e:
            have = False
            fuzz_note = 'atheris unavailable (%s): fuzz stage skipped' % e
        if have:
            fprocs = []
            for i in range(nshards):
                out = os.path.join(sdir, 'fuzz%d.json' % i)
                log = open(os.path.join(sdir, 'fuzz%d.log' % i), 'w')
                p = subprocess.Popen(
                    [sys.executable, '-m', 'vv.fuzz', pid,
                     str(seed * 1000 + i + 1), str(i), str(fuzz_runs), out],
                    stdout=log, stderr=subprocess.STDOUT, env=env, cwd=VERIF)
                fprocs.append((p, out, log))
            n_exec = 0
            for p, out, log in fprocs:
                try:
                    p.wait(timeout=max(1, deadline - time.time()))
                except subprocess.TimeoutExpired:
                    p.kill()
                    p.wait()
                log.close()
                if os.path.exists(out):
                    with open(out) as f:
                        fs = json.load(f)
                    n_exec += fs['evaluations']
                    summaries.append(fs)
                if p.returncode == 2 and not os.path.exists(out):
                    harness_errors.append('fuzz worker failed: ' +
                                          open(log.name).read()[-800:])
            fuzz_note = ('atheris/libFuzzer: %d workers x -runs=%d, %d valid '
                         'executions through fuzz_one_input'
                         % (nshards, fuzz_runs, n_exec))
    evals = sum(s['evaluations'] for s in summaries)
    rejected = sum(s['rejected'] for s in summaries)
    hashes = set()
    labels = collections.Counter()
    excluded = collections.Counter()
    buckets = collections.Counter()
    samples = []
    exhaustive = False
    for s in summaries:
        hashes.update(s['hashes'])
        labels.update(s['labels'])
        excluded.update(s['excluded_known'])
        buckets.update(s['buckets'])
        exhaustive = exhaustive or s.get('exhaustive', False)
        for sp in s['samples']:
            if len(samples) < 6:
                samples.append(sp)
        if s.get('harness_error'):
            harness_errors.append('shard %s: %s' % (s['shard'], s['harness_error']))
        if s.get('failure'):
            path = write_found(pid, s['failure']['spec'],
                               s['failure']['violations'],
                               'shard %s seed %s tier %s' % (
                                   s['shard'], s['shard_seed'], tier))
            violations.append((os.path.relpath(path, VERIF),
                               s['failure']['violations']))
    shutil.rmtree(sdir, ignore_errors=True)

    # ---- evidence ----------------------------------------------------------
    wall = time.time() - t0
    evidence = {
        'property_id': pid,
        'tier': tier,
        'seed': seed,
        'level': 'exploration',
        'coverage': {
            'evaluations': evals + replayed,
            'distinct_nontrivial': len(hashes),
            'rule': prop.RULE,
            'samples': samples,
            'exhaustive': exhaustive,
            'generated': evals,
            'replayed_regressions': replayed,
            'rejected_inputs': rejected,
            'class_histogram': dict(sorted(labels.items())),
            'excluded_known': dict(excluded),
            'violation_buckets': dict(buckets),
            'shards': nshards,
            'shard_seeds': [s['shard_seed'] for s in summaries],
            'fuzz_stage': fuzz_note,
        },
        'assumptions': list(getattr(prop, 'ASSUMPTIONS', [])),
        'wall_s': round(wall, 2),
        'violations': len(violations),
    }
    os.makedirs(os.path.join(VERIF, 'evidence'), exist_ok=True)
    # runs against a scratch copy (mutation / seeded-change tooling) must not
    # overwrite the evidence of the real tree
    if not harness_errors and not os.environ.get('VV_REPO'):
        with open(os.path.join(VERIF, 'evidence', pid + '.json'), 'w') as f:
            json.dump(evidence, f, indent=1, default=repr)

    # ---- verdict -------------------------------------------------------------
    for fid, f in known_seen.items():
        print('KNOWN-FINDING: property=%s %s %s' % (pid, fid, f.text))
    for f in known:
        if f.fid not in known_seen:
            n = excluded.get(f.fid, 0)
            if n:
                print('KNOWN-FINDING: property=%s %s %s' % (pid, f.fid, f.text))
    print('%s %s seed=%d: %d cases (%d generated, %d replays), %d distinct '
          'non-trivial, %d rejected, excluded_known=%s, %.1fs'
          % (pid, tier, seed, evals + replayed, evals, replayed, len(hashes),
             rejected, dict(excluded), wall))
    if harness_errors:
        for h in harness_errors:
            print('HARNESS-ERROR property=%s %s' % (pid, h))
        return 2
    if violations:
        for path, vs in violations:
            for v in vs[:3]:
                print('  %s: %s' % (v['kind'], v['detail'][:400]))
            print('VIOLATION property=%s replay=%s' % (pid, path))
        return 1
    return 0


if __name__ == '__main__':
    sys.exit(main(sys.argv[1:]))

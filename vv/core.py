"""Common plumbing shared by every property module.

A property module (vv/props/cXX.py) exposes

    ID          'C19'
    RULE        text: how cases are generated, what makes one non-trivial
    CASES       {'quick': n, 'thorough': n}     cases *per shard*
    SHARDS      {'quick': k, 'thorough': k}     (optional, default 8 / 16)
    strategy(tier) -> hypothesis strategy producing a JSON-able *spec*
    run_case(spec) -> Result
    SIGNATURES  {name: predicate(spec, violation) -> bool}  (known findings)
    extra(tier, seed) -> iterable of (spec, Result)   (optional: enumerations)

`run_case` never raises for a property violation: it returns a Result whose
`violations` list is non-empty.  An exception escaping `run_case` is a harness
error (exit 2), never a VIOLATION.
"""
import hashlib
import json
import os
import signal
import sys
import traceback

REPO = os.environ.get('VV_REPO') or '/repo'
VERIF = os.path.dirname(os.path.dirname(os.path.abspath(__file__)))


class Violation:
    __slots__ = ('kind', 'detail', 'frame')

    def __init__(self, kind, detail='', frame=''):
        self.kind = kind
        self.detail = detail if isinstance(detail, str) else repr(detail)
        self.frame = frame

    def bucket(self):
        return '%s@%s' % (self.kind, self.frame) if self.frame else self.kind

    def to_json(self):
        return {'kind': self.kind, 'detail': self.detail[:2000],
                'frame': self.frame}

    def __repr__(self):
        return 'Violation(%s: %s%s)' % (
            self.kind, self.detail[:300],
            (' @' + self.frame) if self.frame else '')


class Result:
    """Outcome of one executed case."""

    def __init__(self):
        self.violations = []
        self.labels = set()
        self.nontrivial = False
        self.rejected = False   # input rejected cleanly (counted, not checked)
        self.info = {}

    def fail(self, kind, detail='', frame=''):
        self.violations.append(Violation(kind, detail, frame))
        return self

    def label(self, *names):
        self.labels.update(names)
        return self


class CaseTimeout(BaseException):
    """Raised by the per-case watchdog (BaseException: survives `except
    Exception` in the code under test)."""


class HarnessError(Exception):
    pass


def canon(spec):
    return json.dumps(spec, sort_keys=True, default=repr,
                      separators=(',', ':'))


def spec_hash(spec):
    return hashlib.sha1(canon(spec).encode()).hexdigest()[:16]


def vivarium_frame(exc):
    """Innermost traceback frame that lies in the vivarium package:
    'file.py:function', or '' when the exception never passed through it."""
    tb = exc.__traceback__
    found = ''
    innermost_harness = ''
    while tb is not None:
        fn = tb.tb_frame.f_code.co_filename
        name = tb.tb_frame.f_code.co_name
        if '/vivarium/' in fn:
            found = '%s:%s' % (os.path.basename(fn), name)
        elif '/vv/' in fn:
            innermost_harness = '%s:%s' % (os.path.basename(fn), name)
        tb = tb.tb_next
    return found


def innermost_is_harness(exc):
    """True when the frame that raised is harness code *called from the
    harness* (a bug of ours), False when vivarium code raised or when vivarium
    called back into a kit object that raised on purpose."""
    tb = exc.__traceback__
    seen_viv = False
    last_file = ''
    while tb is not None:
        fn = tb.tb_frame.f_code.co_filename
        if '/vivarium/' in fn:
            seen_viv = True
        last_file = fn
        tb = tb.tb_next
    return not seen_viv


def exc_violation(exc, kind=None):
    frame = vivarium_frame(exc)
    k = kind or ('exception:%s' % type(exc).__name__)
    return Violation(k, '%s: %s' % (type(exc).__name__, str(exc)[:500]), frame)


class watchdog:
    """`with watchdog(seconds):` raises CaseTimeout in the main thread."""

    def __init__(self, seconds=10):
        self.seconds = seconds

    def _fire(self, signum, frame):
        raise CaseTimeout('case exceeded %ss' % self.seconds)

    def __enter__(self):
        self.old = signal.signal(signal.SIGALRM, self._fire)
        # fires at `seconds` and then every second again: a CaseTimeout raised
        # inside a __del__ or a bare except is swallowed, the next one is not
        signal.setitimer(signal.ITIMER_REAL, self.seconds, 1.0)
        return self

    def __exit__(self, *a):
        signal.setitimer(signal.ITIMER_REAL, 0)
        signal.signal(signal.SIGALRM, self.old)
        return False


def assert_repo():
    import vivarium
    here = os.path.dirname(os.path.dirname(os.path.abspath(vivarium.__file__)))
    want = os.path.abspath(REPO)
    if os.path.abspath(here) != want:
        raise HarnessError('vivarium imported from %s, expected %s'
                           % (here, want))


def silence():
    """The engine prints display info; keep shard output machine-readable."""
    import logging
    logging.disable(logging.CRITICAL)
    import warnings
    warnings.simplefilter('ignore')


def load_prop(pid):
    import importlib
    return importlib.import_module('vv.props.' + pid.lower())


def format_exc(exc):
    return ''.join(traceback.format_exception(type(exc), exc,
                                              exc.__traceback__))[-3000:]

"""Parser for KNOWN_FINDINGS.txt (read-only at run time).

    finding: property=C03 id=F03a signature=<name> replay=replays/C03/x.json <what fails>
    fixed: property=C19 <commit> <what failed>

A `finding:` line names a signature predicate of the property module; a
violation matched by the predicate is counted and the search continues.  A
`fixed:` line suppresses nothing.
"""
import os
import re

from vv.core import VERIF

PATH = os.path.join(VERIF, 'KNOWN_FINDINGS.txt')


class Finding:
    def __init__(self, prop, fid, signature, replay, text):
        self.prop, self.fid, self.signature = prop, fid, signature
        self.replay, self.text = replay, text


def load(prop=None):
    out = []
    if not os.path.exists(PATH):
        return out
    for line in open(PATH):
        line = line.strip()
        if not line.startswith('finding:'):
            continue
        body = line[len('finding:'):].strip()
        kv = {}
        rest = []
        for tok in body.split(' '):
            m = re.match(r'^(property|id|signature|replay)=(\S+)$', tok)
            if m and not rest:
                kv[m.group(1)] = m.group(2)
            else:
                rest.append(tok)
        f = Finding(kv.get('property'), kv.get('id'), kv.get('signature'),
                    kv.get('replay'), ' '.join(rest))
        if prop is None or f.prop == prop:
            out.append(f)
    return out

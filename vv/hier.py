"""Hierarchy-first generator: the target tree is drawn first, ports schemas and
topologies are *derived* from it, and the generator records for every port
variable the absolute hierarchy node it denotes (the map W).  The oracle is
that bookkeeping; it never calls inverse_topology, schema_topology or
normalize_path.

A wiring spec (plain data):
 {'tree': nested dict with int leaves,
  'collections': [[abs path of a node whose children are alike], ...],
  'background': bool,     # a root process declaring every leaf plainly
  'procs': [{'name': 'P0', 'at': [abs compartment path],
             'schema': ports schema (leaves {'_default': 0}, '*' for globs,
                       '_output': True for output-only ports),
             'topology': {port: [path] | {'_path': [...], key: ...}},
             'W': [[view path], [abs node path]] , ...
             'globs': [{'view': [port path], 'node': [abs], 'sub': {var: [rel path]}}]
            }]}
"""
from hypothesis import strategies as st

from vv.util import tree_leaves, getp, put

KEYS = ['a', 'b', 'c', 'd']
CHILD_KEYS = ['k1', 'k2', 'k3']


# ------------------------------------------------------------------ trees

@st.composite
def trees(draw, max_depth=3, want_collection=None):
    counter = [100]
    collections = []

    def leaf():
        counter[0] += 1
        return counter[0]

    def node(depth, path):
        kind = draw(st.sampled_from(
            ['leaf', 'leaf', 'branch', 'branch', 'coll'] if depth < max_depth
            else ['leaf']))
        if kind == 'leaf' or depth >= max_depth:
            return leaf()
        if kind == 'coll' and depth + 2 <= max_depth + 1:
            nchild = draw(st.integers(1, 3))
            inner = draw(st.booleans())
            coll = {}
            for c in CHILD_KEYS[:nchild]:
                child = {'x': leaf(), 'y': leaf()}
                if inner:
                    child['inner'] = {'z': leaf(), 'w': leaf()}
                coll[c] = child
            collections.append(list(path))
            return coll
        keys = draw(st.lists(st.sampled_from(KEYS), min_size=1, max_size=3,
                             unique=True))
        return {k: node(depth + 1, path + (k,)) for k in keys}

    keys = draw(st.lists(st.sampled_from(KEYS), min_size=2, max_size=4,
                         unique=True))
    tree = {k: node(1, (k,)) for k in keys}
    if want_collection and not collections:
        k = 'e'
        coll = {}
        for c in CHILD_KEYS[:draw(st.integers(1, 3))]:
            coll[c] = {'x': leaf(), 'y': leaf(),
                       'inner': {'z': leaf(), 'w': leaf()}}
        tree[k] = coll
        collections.append([k])
    if not any(isinstance(v, dict) for v in tree.values()):
        tree['e2'] = {'a': leaf(), 'b': leaf()}
    return tree, collections


def branches(tree, path=()):
    out = [path]
    for k, v in tree.items():
        if isinstance(v, dict):
            out.extend(branches(v, path + (k,)))
    return out


def inside(path, prefixes):
    return any(tuple(path[:len(p)]) == tuple(p) and len(path) >= len(p)
               for p in prefixes)


def strictly_inside(path, prefixes):
    return any(tuple(path[:len(p)]) == tuple(p) and len(path) > len(p)
               for p in prefixes)


def rel(frm, to):
    frm, to = list(frm), list(to)
    i = 0
    while i < len(frm) and i < len(to) and frm[i] == to[i]:
        i += 1
    return ['..'] * (len(frm) - i) + to[i:]


@st.composite
def detoured(draw, tree, frm, path, enabled):
    """Insert (child, '..') detours through existing branch nodes."""
    if not enabled:
        return list(path)
    cur = list(frm)
    out = []
    for seg in list(path) + [None]:
        node = getp(tree, cur, None)
        if isinstance(node, dict) and draw(st.integers(0, 4)) == 0:
            kids = sorted(k for k, v in node.items() if isinstance(v, dict))
            if kids:
                k = draw(st.sampled_from(kids))
                out.extend([k, '..'])
        if seg is None:
            break
        out.append(seg)
        if seg == '..':
            cur.pop()
        else:
            cur.append(seg)
    return out


# ------------------------------------------------------------------ wiring

@st.composite
def wirings(draw, max_procs=3, features=('dotdot', 'split', 'leaf', 'glob',
                                         'alias', 'output', 'deep',
                                         'omit_port', 'glob_base',
                                         'glob_nested')):
    tree, collections = draw(trees(want_collection='glob' in features
                                   and draw(st.booleans())))
    background = draw(st.booleans())
    all_leaves = [list(p) for p, _ in tree_leaves(tree)]
    all_branches = [list(b) for b in branches(tree)]
    plain_branches = [b for b in all_branches if not inside(b, collections)
                      and any(not isinstance(v, dict)
                              or True for v in getp(tree, b).values())]
    compartments = [b for b in all_branches if not inside(b, collections)]
    nprocs = draw(st.integers(1, max_procs))
    procs = []
    ats = [draw(st.sampled_from(compartments)) for _ in range(nprocs)]
    # branches that hold no process node anywhere below ('**' port targets)
    clean = [b for b in all_branches if b and not any(
        list(a[:len(b)]) == list(b) for a in ats)]
    for i in range(nprocs):
        at = ats[i]
        # detours only if every node of the tree is known to exist
        det = background and 'dotdot' in features
        nports = draw(st.integers(1, 3))
        schema, topology, W, globs, outputs = {}, {}, [], [], []
        for j in range(nports):
            port = 'q%d' % j
            kinds = ['branch', 'branch']
            if 'leaf' in features:
                kinds.append('leaf')
            if 'glob' in features and collections:
                kinds.append('glob')
            if 'deep' in features and background and clean:
                kinds.append('deep')
            kind = draw(st.sampled_from(kinds))
            if kind == 'deep':
                # '**' port: the whole sub-branch, every leaf below it
                B = draw(st.sampled_from(clean))
                schema[port] = '**'
                topology[port] = draw(detoured(tree, at, rel(at, B), det))
                for r, _ in tree_leaves(getp(tree, B)):
                    W.append([[port] + list(r), B + list(r)])
            elif kind == 'leaf':
                prev = [w[1] for w in W if len(w[0]) == 1]
                if 'alias' in features and prev and \
                        draw(st.integers(0, 2)) == 0:
                    L = prev[-1]            # second leaf port on one node
                else:
                    L = draw(st.sampled_from(all_leaves))
                schema[port] = {'_default': 0}
                topology[port] = draw(detoured(tree, at, rel(at, L), det))
                W.append([[port], L])
            elif kind == 'glob':
                G = draw(st.sampled_from(collections))
                kids = sorted(getp(tree, G))
                has_inner = 'inner' in getp(tree, G)[kids[0]]
                subvars = draw(st.lists(st.sampled_from(['x', 'y']),
                                        min_size=1, max_size=2, unique=True))
                sub = {v: {'_default': 0} for v in subvars}
                subtopo = {}
                based = False
                if has_inner and (background or 'subtopo_initial' in features) \
                        and draw(st.booleans()):
                    sub['zz'] = {'_default': 0}
                    subtopo['zz'] = ['inner', 'z']
                    # the '*' dictionary may carry the last part of the way
                    # to the collection as a '_path' of its own
                    based = 'glob_base' in features and draw(st.booleans())
                nested = None
                if has_inner and not subtopo and 'glob_nested' in features \
                        and draw(st.booleans()):
                    # a nested sub-schema: one variable of <child>/inner
                    # (another process may declare the other one)
                    nested = draw(st.sampled_from(['z', 'w']))
                    sub['inner'] = {nested: {'_default': 0}}
                schema[port] = {'*': sub}
                path = draw(detoured(tree, at, rel(at, G), det))
                if subtopo and based and path:
                    k = draw(st.integers(0, len(path) - 1))
                    topology[port] = {'_path': path[:k],
                                      '*': dict(subtopo, _path=path[k:])}
                elif subtopo:
                    topology[port] = {'_path': path, '*': subtopo}
                else:
                    topology[port] = path
                for c in kids:
                    for v in subvars:
                        W.append([[port, c, v], G + [c, v]])
                    if subtopo:
                        W.append([[port, c, 'zz'], G + [c, 'inner', 'z']])
                    if nested:
                        W.append([[port, c, 'inner', nested],
                                  G + [c, 'inner', nested]])

                globs.append({'view': [port], 'node': G,
                              'vars': sorted(sub)})
            else:
                B = draw(st.sampled_from(
                    [b for b in plain_branches if b] or plain_branches))
                under = [list(p) for p, _ in tree_leaves(getp(tree, B))
                         if not strictly_inside(B + list(p), collections)
                         or True]
                under = [u for u in under if len(u) <= 3]
                chosen = draw(st.lists(st.sampled_from(under), min_size=1,
                                       max_size=3, unique_by=tuple))
                pschema = {}
                for r in chosen:
                    put(pschema, r, {'_default': 0})
                    W.append([[port] + r, B + r])
                path = draw(detoured(tree, at, rel(at, B), det))
                topo = path
                if 'split' in features and draw(st.integers(0, 2)) == 0:
                    topo = {'_path': path}
                    # re-wire an existing top-level variable, or add a renamed one
                    tops = [r[0] for r in chosen if len(r) == 1]
                    if tops and draw(st.booleans()):
                        k = draw(st.sampled_from(tops))
                    else:
                        k = 'r%d' % j
                        pschema[k] = {'_default': 0}
                    if isinstance(pschema.get(k), dict) and \
                            '_default' in pschema[k]:
                        L2 = draw(st.sampled_from(all_leaves))
                        topo[k] = draw(detoured(tree, B, rel(B, L2), det))
                        W[:] = [w for w in W if w[0] != [port, k]]
                        W.append([[port, k], L2])
                if 'output' in features and draw(st.integers(0, 5)) == 0:
                    pschema['_output'] = True
                    outputs.append(port)
                schema[port] = pschema
                topology[port] = topo
        omitted = []
        if 'omit_port' in features and draw(st.integers(0, 2)) == 0:
            # a port wired to the sibling store of its own name may be left
            # out of the topology (Store._topology_ports wires it by default)
            cands = [q for q, t in topology.items()
                     if isinstance(t, list) and len(t) == 1 and t[0] != '..'
                     and t[0] not in schema and not t[0].startswith('_')]
            if cands:
                q = draw(st.sampled_from(sorted(cands)))
                name = topology.pop(q)[0]
                schema[name] = schema.pop(q)
                for w in W:
                    if w[0][0] == q:
                        w[0][0] = name
                outputs = [name if o == q else o for o in outputs]
                for g in globs:
                    if g['view'] == [q]:
                        g['view'] = [name]
                omitted.append(name)
        procs.append({'name': 'P%d' % i, 'at': at, 'schema': schema,
                      'topology': topology, 'W': W, 'globs': globs,
                      'outputs': outputs, 'omitted': omitted})
    return {'tree': tree, 'collections': collections,
            'background': background, 'procs': procs}


# ------------------------------------------------------------------ builders

def tup(topology):
    """JSON lists -> tuples (recursively) for a topology."""
    if isinstance(topology, dict):
        return {k: tup(v) for k, v in topology.items()}
    return tuple(topology)


def nest_at(path, d):
    for seg in reversed(path):
        d = {seg: d}
    return d


def deep_merge(a, b):
    for k, v in b.items():
        if k in a and isinstance(a[k], dict) and isinstance(v, dict):
            deep_merge(a[k], v)
        else:
            a[k] = v
    return a


def background_schema(tree):
    """One port per top-level key, plain paths; leaf top-level keys become
    leaf ports."""
    schema, topology = {}, {}
    for k, v in tree.items():
        if isinstance(v, dict):
            def conv(t):
                return {kk: conv(vv) if isinstance(vv, dict)
                        else {'_default': 0} for kk, vv in t.items()}
            schema[k] = conv(v)
        else:
            schema[k] = {'_default': 0}
        topology[k] = (k,)
    return schema, topology


def labels(spec):
    """Class labels of a wiring spec."""
    out = set()

    def scan_topo(t):
        if isinstance(t, dict):
            out.add('split')
            for k, v in t.items():
                if k == '*':
                    out.add('glob.subtopology')
                    if isinstance(v, dict) and '_path' in v:
                        out.add('glob.subtopology_with_path')
                scan_topo(v)
        elif '..' in t:
            out.add('dotdot')
    targets = {}
    for p in spec['procs']:
        if p.get('omitted'):
            out.add('port_omitted_from_topology')
        for port, t in p['topology'].items():
            scan_topo(t)
        for port, s in p['schema'].items():
            if s == '**':
                out.add('deep_port')
                continue
            if '_default' in s:
                out.add('leaf_port')
            if '*' in s:
                out.add('glob')
                if isinstance(s['*'], dict) and 'inner' in s['*']:
                    out.add('glob.nested_subschema')
            if s.get('_output'):
                out.add('output_port')
        seen = {}
        for view, node in p['W']:
            if view[-1] != node[-1]:
                out.add('rename')
            seen.setdefault(tuple(node), []).append(view)
        for node, views in seen.items():
            if len(views) > 1:
                out.add('alias.same_process')
                if all(len(v) == 1 for v in views):
                    out.add('alias.leaf_ports')
        for view, node in p['W']:
            targets.setdefault(tuple(node), set()).add(p['name'])
    if any(len(v) > 1 for v in targets.values()):
        out.add('shared.across_processes')
    if spec['background']:
        out.add('background')
    return out

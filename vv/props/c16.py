"""C16  Composites embed, merge and load the same way through every entry point.

Spec: {'parts': [desc, ...], 'embed_path': [...],
       'merges': [{'idx': i, 'kind': 'composite'|'loose', 'path': [...]}],
       'override': None | {'part': i, 'proc': name, 'var': 'acc'|'sum', 'emit': bool},
       'calls': [...]}
"""
import copy

from hypothesis import strategies as st

from vv import kit
from vv.core import Result, exc_violation, innermost_is_harness
from vv.util import deq, getp, put, tree_leaves

ID = 'C16'
CASES = {'quick': 400, 'thorough': 30000}
RULE = ('Hypothesis draws 1..3 composer descriptions (1..3 processes with '
        'different timesteps and state-dependent deterministic updates, 0..3 '
        'steps with a drawn flow, 0..2 legacy derivers listed under `processes`, '
        'topology inside the compartment), an '
        'embedding path of depth 0..3, a merge sequence of 1..4 entries '
        '(composites or loose parts, each optionally at a path, the same '
        'template composite possibly merged several times, further material '
        'merged afterwards), an optional _schema override naming one process/'
        'port/variable, and 1..3 run calls. Oracle: generate(path=p)[k] == '
        'nest(p, generate()[k]) and the embedded run emits the root run\'s '
        'trajectory under p; after each merge the target equals the reference '
        'deep union (later wins) and every previously merged-in composite '
        'still equals its pre-merge snapshot and shares no dictionary with the '
        'target; engines built from composite=, from its parts and from '
        'store=generate_store() emit identical trajectories; the override '
        'changes the schema of exactly the named variable. Non-trivial = >=2 '
        'merges touching one sub-dictionary, or embedding depth >=2 with '
        'steps; distinct = spec hash.')
ASSUMPTIONS = [
    'processes are compared by class, name and parameters across separate '
    'generate() calls, by identity within one composite',
]

PATHS = [[], ['x'], ['x', 'y'], ['z'], ['x', 'y', 'w']]


@st.composite
def part(draw, tag):
    nproc = draw(st.integers(1, 3))
    procs = [{'name': '%sp%d' % (tag, i),
              'ts': draw(st.sampled_from([0.5, 1.0, 1.5, 2.0])),
              'salt': draw(st.integers(1, 9))} for i in range(nproc)]
    nstep = draw(st.integers(0, 3))
    steps = []
    for i in range(nstep):
        deps = ['%ss%d' % (tag, j) for j in range(i)
                if draw(st.integers(0, 2)) == 0]
        steps.append({'name': '%ss%d' % (tag, i), 'deps': deps,
                      'salt': draw(st.integers(1, 9))})
    legacy = [{'name': '%sd%d' % (tag, i), 'salt': draw(st.integers(1, 9))}
              for i in range(draw(st.sampled_from([0, 0, 1, 2])))]
    return {'procs': procs, 'steps': steps, 'legacy': legacy,
            'state': {'shared': {'sum': draw(st.integers(0, 20))}},
            # the source composite is itself generated at this path, so its
            # processes/steps/flow/topology/state are nested dictionaries
            'own_path': draw(st.sampled_from([[], [], ['x'], ['x', 'y'],
                                              ['z']]))}


@st.composite
def strategy_(draw, tier):
    nparts = draw(st.integers(1, 3))
    # a later part may re-use the names of an earlier one (with other
    # parameters, dependencies and state): equal keys, later entries win
    tags = []
    for i in range(nparts):
        if i and draw(st.integers(0, 2)) == 0:
            tags.append(draw(st.sampled_from(tags)))
        else:
            tags.append('abc'[i])
    parts = [draw(part(tags[i])) for i in range(nparts)]
    merges = []
    for _ in range(draw(st.integers(1, 4))):
        merges.append({'idx': draw(st.integers(0, nparts - 1)),
                       'kind': draw(st.sampled_from(['composite', 'composite',
                                                     'loose', 'mixed'])),
                       # 'mixed': one call merges composite idx AND the loose
                       # parts of composite idx2 (loose entries win)
                       'idx2': draw(st.integers(0, nparts - 1)),
                       'path': draw(st.sampled_from(PATHS))})
    override = None
    if draw(st.booleans()):
        i = draw(st.integers(0, nparts - 1))
        override = {'part': i,
                    'proc': draw(st.sampled_from(parts[i]['procs']))['name'],
                    'var': draw(st.sampled_from(['acc', 'sum'])),
                    'emit': False}
    calls = [{'op': draw(st.sampled_from(['update', 'run_for'])),
              'interval': draw(st.sampled_from([1.0, 2.0, 3.0])),
              'force': draw(st.booleans())}
             for _ in range(draw(st.integers(1, 3)))]
    return {'parts': parts, 'embed_path': draw(st.sampled_from(PATHS)),
            'merges': merges, 'override': override, 'calls': calls,
            # the composite merged into is built from a config that names only
            # some of its parts (as Composer.generate does: no 'state')
            'target_partial': draw(st.booleans())}


def strategy(tier):
    return strategy_(tier)


# ------------------------------------------------------------------ helpers

def describe(x, depth=0):
    """Structure with processes replaced by (class, name, parameters)."""
    from vivarium.core.process import Process
    if depth > 12:
        return '<deeper than 12: cyclic?>'
    if isinstance(x, Process):
        params = {k: v for k, v in x.parameters.items() if k != 'run_id'}
        return ('process', type(x).__name__, x.name, repr(sorted(
            params.items(), key=lambda kv: kv[0])))
    if isinstance(x, dict):
        return {k: describe(v, depth + 1) for k, v in x.items()}
    if isinstance(x, (list, tuple)):
        return [describe(v, depth + 1) for v in x]
    return x


def nest(path, d):
    for seg in reversed(path):
        d = {seg: d}
    return d


def same(a, b, depth=0):
    """Deep equality, process objects by identity (depth-bounded: a broken
    merge can build cyclic dictionaries)."""
    from vivarium.core.process import Process
    if depth > 12:
        return False
    if isinstance(a, Process) or isinstance(b, Process):
        return a is b
    if isinstance(a, dict) and isinstance(b, dict):
        return set(a) == set(b) and all(
            same(a[k], b[k], depth + 1) for k in a)
    if isinstance(a, (list, tuple)) and isinstance(b, (list, tuple)):
        return len(a) == len(b) and all(
            same(x, y, depth + 1) for x, y in zip(a, b))
    return a == b


def snapshot(x, depth=0):
    """Copy of the containers, leaves (processes, tuples) by reference."""
    if depth > 12:
        return x
    if isinstance(x, dict):
        return {k: snapshot(v, depth + 1) for k, v in x.items()}
    if isinstance(x, list):
        return [snapshot(v, depth + 1) for v in x]
    return x


def dict_ids(x, out=None):
    out = out if out is not None else set()
    if id(x) in out:
        return out
    if isinstance(x, dict):
        out.add(id(x))
        for v in x.values():
            dict_ids(v, out)
    elif isinstance(x, list):
        out.add(id(x))
        for v in x:
            dict_ids(v, out)
    return out


def union(a, b, depth=0):
    """Reference deep union, later (b) wins on equal keys."""
    out = snapshot(a)
    if depth > 12:
        return out
    for k, v in b.items():
        if k in out and isinstance(out[k], dict) and isinstance(v, dict):
            out[k] = union(out[k], v, depth + 1)
        else:
            out[k] = snapshot(v)
    return out


KEYS = ['processes', 'steps', 'flow', 'topology', 'state']


def run_engine(engine, calls):
    for call in calls:
        if call['op'] == 'update':
            engine.update(call['interval'])
        else:
            engine.run_for(call['interval'], force_complete=call['force'])
    return [r['data'] for r in engine.emitter.rows if r.get('table') == 'history']


def make_composite(desc, run_id, nested=False):
    from vivarium.core.composer import Composite
    own = tuple(desc.get('own_path') or ()) if nested else ()
    if own:
        comp = kit.SpecComposer({'desc': desc, 'run_id': run_id}).generate(
            path=own)
        comp['state'] = nest(list(own), copy.deepcopy(desc['state']))
        return comp
    p, s, f, t = kit.make_part(desc, run_id)
    return Composite({'processes': p, 'steps': s, 'flow': f, 'topology': t,
                      'state': copy.deepcopy(desc['state'])})


# ------------------------------------------------------------------ checks

def check_embed(spec, res, ctx):
    from vivarium.core.engine import Engine
    desc = spec['parts'][0]
    path = spec['embed_path']
    composer = kit.SpecComposer({'desc': desc, 'run_id': 0})
    root = composer.generate()
    emb = composer.generate(path=tuple(path))
    for k in ['processes', 'steps', 'flow', 'topology']:
        a = describe(nest(path, root[k]))
        b = describe(emb[k])
        if a != b:
            res.fail('embed.' + k, 'generate(path=%r)[%s] = %r, expected the '
                     'root composite nested under the path: %r'
                     % (path, k, b, a), 'composer.py:generate')
            return
    e1 = Engine(composite=composer.generate(),
                initial_state=copy.deepcopy(desc['state']),
                display_info=False, emitter={'type': 'vv-rec', 'run_id': 0})
    e2 = Engine(composite=composer.generate(path=tuple(path)),
                initial_state=nest(path, copy.deepcopy(desc['state'])),
                display_info=False, emitter={'type': 'vv-rec', 'run_id': 0})
    r1 = run_engine(e1, spec['calls'])
    r2 = run_engine(e2, spec['calls'])
    if len(r1) != len(r2):
        res.fail('embed.rows', '%d rows at the root, %d embedded at %r'
                 % (len(r1), len(r2), path))
        return
    for a, b in zip(r1, r2):
        t = a.get('time')
        want = nest(path, {k: v for k, v in a.items() if k != 'time'})
        got = {k: v for k, v in b.items() if k != 'time'}
        d = deq(prune(got), prune(want))
        if d or b.get('time') != t:
            res.fail('embed.trajectory', 'at time %r the composite embedded at '
                     '%r differs from the root run: %s' % (t, path, d),
                     'composer.py:generate')
            return


def prune(tree):
    if isinstance(tree, dict):
        out = {k: prune(v) for k, v in tree.items()}
        return {k: v for k, v in out.items()
                if not (isinstance(v, dict) and not v)}
    return tree


def check_merges(spec, res, ctx):
    from vivarium.core.composer import Composite
    sources = [make_composite(d, 0, nested=True) for d in spec['parts']]
    def new_target():
        if spec.get('target_partial'):
            return Composite({'processes': {}, 'topology': {}})
        return Composite({})
    target = new_target()
    for k in KEYS:
        if target[k] != {}:
            res.fail('merge.fresh_not_empty', 'a composite built from an '
                     'empty config holds %s = %r' % (k, describe(target[k])),
                     'datum.py:__init__')
            return
    expected = {k: {} for k in KEYS}
    merged_in = []       # (composite, snapshot)
    touched = {}
    for n, m in enumerate(spec['merges']):
        src = sources[m['idx']]
        path = tuple(m['path'])
        before_src = {k: snapshot(src[k]) for k in KEYS}
        pre_src = before_src
        if m['kind'] == 'mixed':
            src2 = sources[m.get('idx2', 0)]
            before2 = {k: snapshot(src2[k]) for k in KEYS}
            target.merge(composite=src, processes=src2['processes'],
                         topology=src2['topology'], steps=src2['steps'],
                         flow=src2['flow'], state=src2['state'], path=path)
            merged_in.append((m.get('idx2', 0), src2, before2))
            before_src = {k: union(before_src[k], before2[k]) for k in KEYS}
            res.label('merge.mixed')
        elif m['kind'] == 'composite':
            target.merge(composite=src, path=path)
        else:
            target.merge(processes=src['processes'], topology=src['topology'],
                         steps=src['steps'], flow=src['flow'],
                         state=src['state'], path=path)
        for k in KEYS:
            expected[k] = union(expected[k], nest(list(path), before_src[k]))
        merged_in.append((m['idx'], src, pre_src))
        if len({p['procs'][0]['name'][0] for p in spec['parts']}) < \
                len(spec['parts']):
            res.label('merge.equal_keys')
        for k in KEYS:
            if not same(target[k], expected[k]):
                res.fail('merge.union', 'after merge %d (%r) target[%s] = %r, '
                         'expected union %r' % (n, m, k, describe(target[k]),
                                                describe(expected[k])),
                         'composer.py:merge')
                return
        tids = set()
        for k in KEYS:
            dict_ids(target[k], tids)
        for idx, comp, snap in merged_in:
            for k in KEYS:
                if not same(comp[k], snap[k]):
                    res.fail('merge.source_changed', 'after merge %d (%r) the '
                             'composite merged in earlier (part %d) changed in '
                             '%s: %r, was %r' % (n, m, idx, k,
                                                 describe(comp[k]),
                                                 describe(snap[k])),
                             'composer.py:merge')
                    return
                if dict_ids(comp[k]) & tids and comp[k]:
                    # sharing a dictionary is not itself a violation of the
                    # statement (only a later change is): counted
                    res.label('merge.aliased')
        key = (m['idx'], tuple(m['path']))
        touched[tuple(m['path'])] = touched.get(tuple(m['path']), 0) + 1
    # composites built afterwards are not affected by the merges either
    later = new_target()
    for k in KEYS:
        if later[k] != {}:
            res.fail('merge.leak', 'after the merges a composite built from '
                     'an empty config holds %s = %r' % (k, describe(later[k])),
                     'datum.py:__init__')
            return
        if later[k] is target[k]:
            res.fail('merge.leak', 'two composites share their %s dictionary'
                     % k, 'datum.py:__init__')
            return
    if spec.get('target_partial'):
        res.label('merge.target_partial_config')
    if len(spec['merges']) >= 2 and (
            max(touched.values()) >= 2 or
            any(a != b and a[:len(b)] == b for a in touched for b in touched)):
        res.label('merge.overlapping')
        res.nontrivial = True


def check_entry_points(spec, res, ctx):
    from vivarium.core.engine import Engine
    from vivarium.core.composer import Composite
    desc = spec['parts'][-1]

    def fresh():
        return make_composite(desc, 0)
    emitter = {'type': 'vv-rec', 'run_id': 0}
    c1 = fresh()
    e1 = Engine(composite=c1, display_info=False, emitter=dict(emitter))
    c2 = fresh()
    kwargs = dict(processes=c2['processes'], topology=c2['topology'],
                  initial_state=c2['state'], display_info=False,
                  emitter=dict(emitter))
    if c2['steps']:
        kwargs.update(steps=c2['steps'], flow=c2['flow'])
    e2 = Engine(**kwargs)
    c3 = fresh()
    e3 = Engine(store=c3.generate_store(), display_info=False,
                emitter=dict(emitter))
    rows = [run_engine(e, spec['calls']) for e in (e1, e2, e3)]
    names = ['composite=', 'parts', 'store=generate_store()']
    for i in (1, 2):
        if len(rows[i]) != len(rows[0]):
            res.fail('entry.rows', 'engine from %s emitted %d rows, from '
                     'composite= %d' % (names[i], len(rows[i]), len(rows[0])),
                     'engine.py:_make_store')
            return
        for a, b in zip(rows[0], rows[i]):
            d = deq(prune(a), prune(b))
            if d:
                res.fail('entry.trajectory', 'at time %r the engine built from '
                         '%s differs from the one built from composite=: %s'
                         % (a.get('time'), names[i], d), 'engine.py:_make_store')
                return


def check_override(spec, res, ctx):
    from vivarium.core.composer import Composite
    ov = spec['override']
    if not ov:
        return
    res.label('override')
    desc = spec['parts'][ov['part']]
    port = 'own' if ov['var'] == 'acc' else 'shared'
    override = {ov['proc']: {port: {ov['var']: {'_emit': ov['emit'],
                                                '_properties': {'mark': 1}}}}}
    p, s, f, t = kit.make_part(desc, 0)
    base = {}
    for name, proc in list(p.items()) + list(s.items()):
        base[name] = copy.deepcopy(proc.get_schema())
    comp = Composite({'processes': p, 'steps': s, 'flow': f, 'topology': t,
                      '_schema': override})
    for name, proc in list(p.items()) + list(s.items()):
        got = proc.get_schema()
        want = copy.deepcopy(base[name])
        if name == ov['proc']:
            want[port][ov['var']]['_emit'] = ov['emit']
            want[port][ov['var']]['_properties'] = {'mark': 1}
        if not same_schema(got, want):
            res.fail('override', 'after overriding %r the schema of %s is %r, '
                     'expected %r' % (override, name, strip_fn(got),
                                      strip_fn(want)), 'composer.py:__init__')
            return
    check_override_then_merge(spec, res, desc, ov, override, port)


def check_override_then_merge(spec, res, desc, ov, override, port):
    """An override the composite already holds must also reach a process that
    a later merge puts at the path it names."""
    from vivarium.core.composer import Composite
    p1, s1, f1, t1 = kit.make_part(desc, 0)
    comp = Composite({'processes': p1, 'steps': s1, 'flow': f1, 'topology': t1,
                      '_schema': override})
    # the same parts again, as new instances under the same keys
    p, s, f, t = kit.make_part(desc, 0)
    base = {name: copy.deepcopy(proc.get_schema())
            for name, proc in list(p.items()) + list(s.items())}
    comp.merge(processes=p, topology=t, steps=s, flow=f)
    for name, proc in list(p.items()) + list(s.items()):
        want = copy.deepcopy(base[name])
        if name == ov['proc']:
            want[port][ov['var']]['_emit'] = ov['emit']
            want[port][ov['var']]['_properties'] = {'mark': 1}
        if not same_schema(proc.get_schema(), want):
            res.fail('override.later_merge', 'a composite holding the override '
                     '%r was merged with the process it names: the schema of '
                     '%s is %r, expected %r' % (
                         override, name, strip_fn(proc.get_schema()),
                         strip_fn(want)), 'composer.py:merge')
            return
    res.label('override.then_merge')
    if ov['var'] != 'acc':
        return
    # an override merged in after the composite was loaded once must show
    # in the store the next time it is loaded
    p2, s2, f2, t2 = kit.make_part(desc, 0)
    comp2 = Composite({'processes': p2, 'steps': s2, 'flow': f2,
                       'topology': t2})
    comp2.generate_store()
    comp2.merge(schema_override=override)
    store = comp2.generate_store()
    node = store.get_path(('own', ov['proc'], 'acc'))
    if node.emit != ov['emit'] or node.properties.get('mark') != 1:
        res.fail('override.second_load', 'override %r merged after a first '
                 'generate_store(): the store generated afterwards has emit=%r '
                 'properties=%r at own/%s/acc' % (override, node.emit,
                                                  node.properties, ov['proc']),
                 'store.py:_generate_paths')
        return
    res.label('override.after_first_load')


def strip_fn(x):
    if isinstance(x, dict):
        return {k: strip_fn(v) for k, v in x.items()}
    if callable(x):
        return getattr(x, '__name__', 'fn')
    return x


def same_schema(a, b):
    return strip_fn(a) == strip_fn(b)


def run_case(spec):
    res = Result()
    ctx = None
    if len(spec['embed_path']) >= 2 and spec['parts'][0]['steps']:
        res.label('embed.deep_with_steps')
        res.nontrivial = True
    try:
        check_embed(spec, res, ctx)
        if not res.violations:
            check_merges(spec, res, ctx)
        if not res.violations:
            check_entry_points(spec, res, ctx)
        if not res.violations:
            check_override(spec, res, ctx)
    except Exception as e:
        if innermost_is_harness(e):
            raise
        res.violations.append(exc_violation(e))
    return res


SIGNATURES = {}

"""C04  Processes started together see one committed snapshot; listing order is moot.

Two kinds of case:
 {'kind': 'snapshot', ...sched spec...}      history invariant on the event log
 {'kind': 'perm', 'base': sched spec (+ 'deps'), 'orders': {...}, 'init': {...}}
                                              metamorphic: permuted listing
"""
from hypothesis import strategies as st

from vv import sched, kit
from vv.core import Result, exc_violation, innermost_is_harness
from vv.util import deq

ID = 'C04'
CASES = {'quick': 1500, 'thorough': 30000}
HANG_IS_VIOLATION = True
RULE = ('(a) snapshot: C01-style schedules (1..4 processes sharing an '
        'accumulate variable, quiet polls, chunked calls, 0..2 steps) run with '
        'whole-state snapshots taken inside every next_update and emit; no '
        'apply event may lie between two invocations carrying one global time '
        '(nor between two steps of one layer), all of them must see the same '
        'state, equal to the last emitted row. (b) permutation: processes and '
        'steps whose updates are order-independent functions of the state they '
        'see (integer accumulates on shared variables, sets on distinct '
        'variables), built twice - canonical listing and a drawn permutation of '
        'processes, steps, flow, topology entries, ports and initial-state keys '
        '- must emit identical trajectories. Non-trivial = >=2 processes (or '
        'steps of one layer) started at one instant on a shared variable, and '
        'for (b) a non-identity permutation of them; distinct = spec hash.')
ASSUMPTIONS = [
    'derivers (steps without flow entry) are order-sensitive by specification '
    'and are not permuted',
]


# ------------------------------------------------------------------ strategy

@st.composite
def strategy_(draw, tier):
    if draw(st.booleans()):
        spec = draw(sched.sched_specs(quiet=True, adaptive=False,
                                      precisions=(None,), max_procs=4,
                                      deep=tier == 'thorough'))
        spec['kind'] = 'snapshot'
        return spec
    base = draw(sched.sched_specs(quiet=True, adaptive=False,
                                  precisions=(None,), max_procs=4,
                                  steps_ok=False, deep=tier == 'thorough',
                                  heavy_one_in=2))
    if len(base['procs']) < 2 and draw(st.integers(0, 3)) > 0:
        p = dict(base['procs'][0])
        p['name'] = 'p1'
        base['procs'].append(p)
    nsteps = draw(st.integers(0, 3))
    base['steps'] = nsteps
    base['deps'] = [[] if i == 0 or draw(st.booleans()) else [0]
                    for i in range(nsteps)]
    names = [p['name'] for p in base['procs']] + ['s%d' % i for i in range(nsteps)]
    orders = {
        'procs': draw(st.permutations(list(range(len(base['procs']))))),
        'steps': draw(st.permutations(list(range(nsteps)))),
        'flow': draw(st.permutations(list(range(nsteps)))),
        'topo': draw(st.permutations(names)),
        'ports': {n: draw(st.sampled_from([None, 'reversed']))
                  for n in names if n.startswith('p')},
        'topo_ports': draw(st.booleans()),
        'init': draw(st.permutations(['shared', 'layer'])),
    }
    init = {'sum': draw(st.integers(0, 50)), 'ssum': draw(st.integers(0, 50))}
    if draw(st.integers(0, 3)) == 0:
        # decimal timesteps and intervals without a precision: the event times
        # are sums of floats (0.1+0.1+0.1 != 0.3), but they are the same sums
        # whatever the listing order
        def dec(x):
            return round(x * 4) / 10.0          # k/4 -> k/10
        for p in base['procs']:
            p['ts'] = [dec(t) for t in p['ts']]
        for c in base['calls']:
            c['interval'] = dec(c['interval'])
        base['t0'] = dec(base['t0'])
        if base.get('toggle_ts'):
            base['toggle_ts'] = dec(base['toggle_ts'])
        base['decimal'] = True
    return {'kind': 'perm', 'base': base, 'orders': orders, 'init': init}


def strategy(tier):
    return strategy_(tier)


# ------------------------------------------------------------------ snapshot

def no_proc(whole):
    if isinstance(whole, dict):
        out = {}
        for k, v in whole.items():
            w = no_proc(v)
            if w is not DROP:
                out[k] = w
        return out
    if isinstance(whole, str) and whole.startswith('<process'):
        return DROP
    return whole


DROP = object()


def run_snapshot(spec, res):
    ctx, engine, failure = sched.execute(spec, snap=True)
    try:
        if failure is not None:
            res.violations.append(failure)
            return
        last_row = None
        group_t = None       # global time of the current invocation group
        group_state = None
        group_n = 0
        step_group = None
        for seq, ev in enumerate(ctx.log):
            kind = ev[0]
            if kind == 'emit' and ev[1] == 'history':
                last_row = {k: v for k, v in ev[3].items() if k != 'time'}
                group_t = None
                step_group = None
            elif kind == 'invoke':
                t, whole = ev[2], no_proc(ev[6])
                if group_t == t:
                    group_n += 1
                    res.label('same_instant')
                    res.nontrivial = True
                    d = deq(whole, group_state)
                    if d:
                        res.fail('snapshot.differs', 'process %s invoked at '
                                 'global time %r sees a different state than '
                                 'the process invoked before it at the same '
                                 'instant: %s' % (ev[1], t, d),
                                 'engine.py:run_for')
                        return
                else:
                    group_t, group_state, group_n = t, whole, 1
                if last_row is not None:
                    d = deq(prune(whole), prune(last_row))
                    if d:
                        res.fail('snapshot.uncommitted', 'process %s at %r sees '
                                 'a state that differs from the last emitted '
                                 'row: %s' % (ev[1], t, d), 'engine.py:run_for')
                        return
                seen = ev[5]['shared']
                if deq(seen, whole.get('shared')):
                    res.fail('view.stale', '%s sees shared=%r, hierarchy holds '
                             '%r' % (ev[1], seen, whole.get('shared')))
                    return
            elif kind == 'apply':
                if group_t is not None and ev[2] == group_t and group_n >= 1 \
                        and ev[1].startswith(('own:p', 'shared:')):
                    # an application at the very time of the current group:
                    # legal only if no further invocation of this group follows
                    group_applied = seq
                    # look ahead
                    for ev2 in ctx.log[seq + 1:]:
                        if ev2[0] == 'invoke' and ev2[2] == group_t:
                            res.fail('snapshot.apply_between', 'an update was '
                                     'applied at %r between the invocations of '
                                     'two processes started at that instant'
                                     % (group_t,), 'engine.py:run_for')
                            return
                        if ev2[0] in ('emit', 'call', 'return'):
                            break
            elif kind == 'step':
                # all bystander steps share one dependency layer
                t, whole = ev[2], no_proc(ev[6]) if ev[6] is not None else None
                if whole is None:
                    continue
                if step_group is not None:
                    res.label('same_layer')
                    res.nontrivial = True
                    d = deq(whole, step_group)
                    if d:
                        res.fail('snapshot.layer', 'step %s sees a different '
                                 'state than the step of the same layer that '
                                 'ran before it at %r: %s' % (ev[1], t, d),
                                 'engine.py:run_steps')
                        return
                else:
                    step_group = whole
                if deq(ev[5]['layer'], whole.get('layer')):
                    res.fail('view.stale', 'step %s sees layer=%r, hierarchy '
                             'holds %r' % (ev[1], ev[5]['layer'],
                                           whole.get('layer')))
                    return
    finally:
        ctx.close()


def prune(tree):
    if isinstance(tree, dict):
        out = {k: prune(v) for k, v in tree.items()}
        return {k: v for k, v in out.items()
                if not (isinstance(v, dict) and not v)}
    return tree


# ------------------------------------------------------------------ permutation

def build_perm(spec, ctx, permuted):
    base, orders = spec['base'], spec['orders']
    procs = base['procs']
    nsteps = base['steps']
    pidx = orders['procs'] if permuted else list(range(len(procs)))
    sidx = orders['steps'] if permuted else list(range(nsteps))
    fidx = orders['flow'] if permuted else list(range(nsteps))
    processes = {}
    for i in pidx:
        p = procs[i]
        processes[p['name']] = kit.RecProcess({
            'name': p['name'], 'run_id': ctx.run_id, 'ts': list(p['ts']),
            'ts_mode': p['ts_mode'], 'cond': p['cond'], 'meta': True,
            'salt': i + 1,
            'port_order': orders['ports'].get(p['name']) if permuted else None})
    steps = {}
    for i in sidx:
        steps['s%d' % i] = kit.RecStep({'name': 's%d' % i,
                                        'run_id': ctx.run_id, 'meta': True,
                                        'salt': i + 1})
    flow = {'s%d' % i: [('s%d' % d,) for d in base['deps'][i]] for i in fidx}
    topo_names = orders['topo'] if permuted else \
        [p['name'] for p in procs] + ['s%d' % i for i in range(nsteps)]
    topology = {}
    for n in topo_names:
        if n.startswith('p'):
            entries = [('own', ('own', n)), ('shared', ('shared',))]
        else:
            entries = [('own', ('own', n)), ('shared', ('shared',)),
                       ('layer', ('layer',))]
        if permuted and orders['topo_ports']:
            entries.reverse()
        topology[n] = dict(entries)
    init_keys = orders['init'] if permuted else ['shared', 'layer']
    init_all = {'shared': {'sum': spec['init']['sum']},
                'layer': {'ssum': spec['init']['ssum']}}
    initial = {k: init_all[k] for k in init_keys if k == 'shared' or nsteps}
    return processes, steps, flow, topology, initial


def run_once(spec, permuted):
    from vivarium.core.engine import Engine
    base = spec['base']
    ctx = kit.Context(t0=base['t0'], budget=sched.poll_budget(base))
    try:
        processes, steps, flow, topology, initial = build_perm(
            spec, ctx, permuted)
        kwargs = dict(processes=processes, topology=topology,
                      initial_state=initial,
                      emitter=kit.emitter_config(ctx), display_info=False,
                      initial_global_time=base['t0'])
        if steps:
            kwargs.update(steps=steps, flow=flow)
        engine = Engine(**kwargs)
        ctx.engine = engine
        for call in base['calls']:
            if call['op'] == 'update':
                engine.update(call['interval'])
            else:
                engine.run_for(call['interval'], force_complete=call['force'])
        rows = [r['data'] for r in engine.emitter.rows
                if r.get('table') == 'history']
        same_instant = False
        last_t, n = None, 0
        for ev in ctx.log:
            if ev[0] == 'invoke':
                if ev[2] == last_t:
                    same_instant = True
                last_t = ev[2]
            elif ev[0] == 'emit':
                last_t = None
        return rows, same_instant
    finally:
        ctx.close()


def run_perm(spec, res):
    orders, base = spec['orders'], spec['base']
    np_, ns = len(base['procs']), base['steps']
    ident = (orders['procs'] == list(range(np_))
             and orders['steps'] == list(range(ns)))
    rows_a, same = run_once(spec, False)
    rows_b, _ = run_once(spec, True)
    if same:
        res.label('same_instant')
    if not ident:
        res.label('perm.nonidentity')
    res.nontrivial = (same or ns >= 2) and not ident
    if len(rows_a) != len(rows_b):
        res.fail('perm.rows', '%d rows vs %d rows under permutation'
                 % (len(rows_a), len(rows_b)))
        return
    for a, b in zip(rows_a, rows_b):
        d = deq(a, b)
        if d:
            res.fail('perm.trajectory', 'row at time %r differs under the '
                     'listing permutation %r: %s' % (a.get('time'), orders, d),
                     'engine.py:run_for')
            return


def run_case(spec):
    res = Result()
    res.label('kind.' + spec['kind'])
    if spec.get('base', {}).get('decimal'):
        res.label('perm.decimal_timesteps')
    try:
        if spec['kind'] == 'snapshot':
            run_snapshot(spec, res)
        else:
            run_perm(spec, res)
    except kit.PollBudgetExceeded as e:
        res.fail('nontermination', str(e), 'engine.py:run_for')
    except Exception as e:
        if innermost_is_harness(e):
            raise
        res.violations.append(exc_violation(e))
    return res


SIGNATURES = {}

"""C14  Serialization round-trips every emittable value and yields plain JSON.

Spec = tagged value tree (plain data, see `build`).  Oracle: structural
reference `expected` (tuples/sets/arrays -> lists, numpy scalars -> Python
numbers, quantities restored, plain data unchanged), plain-JSON predicate,
idempotence, TypeError for the negative class.
"""
import math

from hypothesis import strategies as st

from vv.core import Result, exc_violation, innermost_is_harness

ID = 'C14'
CASES = {'quick': 1200, 'thorough': 40000}
FUZZ_RUNS = 40000        # thorough tier: atheris workers, -runs per worker
RULE = ('Hypothesis draws recursive tagged trees over None/bool/int(<2^64)/'
        'finite float/str(incl. near-miss "!units[" forms)/list/tuple/set/'
        'str-keyed dict/numpy scalars/numeric, bool and string arrays (<=3 '
        'dims)/Quantity (int <2^53, float incl. 0,-x,1e+-300, subnormal, nan, '
        '+-inf, numpy scalar, 1-D array magnitudes; units: 18 curated ones plus '
        'every SI prefix x 40 base units (vetted with pint alone) combined as '
        'a, a/b, a*b, a**2, 1/a)/Unit/Process/function, and a negative class (non-str '
        'key, np.str_ key, object(), complex, bytes, frozenset, ints outside '
        '64 bit) placed anywhere in the tree; each positive tree goes through '
        'serialize_value (plain-JSON predicate, idempotence), deserialize_value '
        '(== structural reference) and, top-level dicts, RAMEmitter.emit + '
        'get_data_deserialized/get_data_unitless. Non-trivial = tree holds a '
        'quantity/unit or a numpy value at depth >= 2, or is in the negative '
        'class; distinct = spec hash.')
ASSUMPTIONS = [
    'plain strings of the reserved form "!units[...]" are not generated as data',
    'offset/logarithmic units, float32 magnitudes and >1-D quantity arrays are '
    'outside the generated domain (pint\'s str() is not a round-trip format for them)',
    'a bare Unit is expected back as the quantity 1*unit',
]

UNITS = ['gram', 'milligram', 'femtogram', 'liter', 'mole', 'millimole',
         'second', '1 / second', 'gram / liter', 'mole / liter / second',
         'meter ** 2', 'micrometer', 'count', 'dimensionless',
         'gram ** 2 / liter', 'kelvin', 'hour', 'millimolar']

# a wider pool: every SI prefix x common multiplicative base units, vetted with
# pint alone (the name must parse and survive pint's own str() round trip)
PREFIXES = ['', 'yocto', 'zepto', 'atto', 'femto', 'pico', 'nano', 'micro',
            'milli', 'centi', 'deci', 'deca', 'hecto', 'kilo', 'mega', 'giga',
            'tera', 'peta', 'exa', 'zetta', 'yotta']
BASES = ['meter', 'gram', 'second', 'mole', 'liter', 'molar', 'kelvin',
         'ampere', 'candela', 'newton', 'joule', 'watt', 'pascal', 'hertz',
         'coulomb', 'volt', 'ohm', 'farad', 'tesla', 'henry', 'siemens',
         'lumen', 'becquerel', 'gray', 'katal', 'minute', 'hour', 'day',
         'radian', 'bit', 'byte', 'dalton', 'electron_volt', 'calorie', 'bar',
         'inch', 'pound', 'gallon', 'count', 'dimensionless']
_POOL = []


def unit_pool():
    if not _POOL:
        from vivarium.library.units import units
        for base in BASES:
            for prefix in PREFIXES:
                if prefix and base in ('count', 'dimensionless', 'minute',
                                       'hour', 'day'):
                    continue
                name = prefix + base
                try:
                    q = 1.5 * units(name).units
                    if units(str(q)) == q and units(str(q)).units == q.units:
                        _POOL.append(str(q.units))
                except Exception:
                    pass
        _POOL.sort()
    return _POOL

SPECIAL_FLOATS = ['nan', 'inf', '-inf']


# ------------------------------------------------------------------ build

def fl(v):
    if isinstance(v, str):
        if v in SPECIAL_FLOATS:
            return float(v)
        return float.fromhex(v)
    return float(v)


def unit_of(name):
    from vivarium.library.units import units
    return units(name).units


class _Proc:
    pass


def toy_process():
    from vivarium.core.process import Process

    class Toy(Process):
        defaults = {'k': 1}

        def ports_schema(self):
            return {}

        def next_update(self, timestep, states):
            return {}
    return Toy({'k': 2})


def toy_function(x):
    return x


def build(s):
    import numpy as np
    t = s['t']
    if t == 'none':
        return None
    if t in ('bool', 'int', 'str'):
        return s['v']
    if t == 'float':
        return fl(s['v'])
    if t == 'list':
        return [build(x) for x in s['v']]
    if t == 'tuple':
        return tuple(build(x) for x in s['v'])
    if t == 'set':
        return set(build(x) for x in s['v'])
    if t == 'dict':
        return {k: build(v) for k, v in s['v']}
    if t == 'np':
        return getattr(np, s['dtype'])(fl(s['v']) if 'float' in s['dtype']
                                       else s['v'])
    if t == 'arr':
        if s['dtype'] == 'float64':
            flat = [fl(x) for x in s['v']]
        else:
            flat = list(s['v'])
        a = np.array(flat, dtype=s['dtype'] if s['dtype'] != 'str' else None)
        a = a.reshape(s['shape'])
        # same logical content, other memory layouts (orjson serializes only
        # C-contiguous arrays natively; the others go through a fallback)
        if s.get('layout') == 'F':
            a = np.asfortranarray(a)
        elif s.get('layout') == 'stride' and a.ndim >= 1:
            a = np.repeat(a, 2, axis=0)[::2]
        return a
    if t == 'q':
        return build(s['mag']) * unit_of(s['unit'])
    if t == 'unit':
        return unit_of(s['unit'])
    if t == 'proc':
        return toy_process()
    if t == 'func':
        return toy_function
    if t == 'bad':
        k = s['k']
        if k == 'object':
            return object()
        if k == 'complex':
            return 1j
        if k == 'bytes':
            return b'x'
        if k == 'frozenset':
            return frozenset([1])
        if k == 'bigint':
            return 2 ** 64
        if k == 'negbigint':
            return -2 ** 63 - 1
        if k == 'intkey':
            return {1: 2}
        if k == 'tuplekey':
            return {('a', 'b'): 2}
        if k == 'npstrkey':
            return {np.str_('a'): 1}
    raise ValueError(t)


MARK_PROC = '!ProcessSerializer['
MARK_FUNC = '!FunctionSerializer['


class Marker:
    def __init__(self, prefix):
        self.prefix = prefix


class One:
    """Magnitude of a bare Unit read back as a quantity: numerically 1 (pint
    yields 1 or 1.0 depending on the unit expression)."""


class Num:
    """Magnitude of a quantity with its units stripped: compared numerically
    (pint may read an int magnitude back as an equal float, e.g. '3 / second')."""
    def __init__(self, v):
        self.v = v


class Bag:
    """Expected list whose order is unspecified (from a set)."""
    def __init__(self, items):
        self.items = items


def expected(s, unitless=False):
    """Reference result of deserialize(serialize(value))."""
    import numpy as np
    t = s['t']
    if t in ('none', 'bool', 'int', 'str'):
        return None if t == 'none' else s['v']
    if t == 'float':
        return fl(s['v'])
    if t in ('list', 'tuple'):
        return [expected(x, unitless) for x in s['v']]
    if t == 'set':
        vals = []
        for x in set(build(x) for x in s['v']):
            vals.append(x)
        return Bag(vals)
    if t == 'dict':
        return {k: expected(v, unitless) for k, v in s['v']}
    if t == 'np':
        v = build(s)
        return v.item()
    if t == 'arr':
        return build(s).tolist()
    if t == 'q':
        q = build(s)
        m = q.magnitude
        if isinstance(m, np.ndarray):
            if unitless:
                return [Num(x) for x in m.tolist()]
            return [x.item() * q.units for x in m]
        if isinstance(m, np.generic):
            m = m.item()
        return Num(m) if unitless else m * q.units
    if t == 'unit':
        u = build(s)
        return One() if unitless else 1 * u
    if t == 'proc':
        return Marker(MARK_PROC)
    if t == 'func':
        return Marker(MARK_FUNC)
    raise ValueError(t)


def num_eq(a, b):
    if isinstance(a, float) and isinstance(b, float):
        if math.isnan(a) or math.isnan(b):
            return math.isnan(a) and math.isnan(b)
    return a == b


def equal(got, want, path=''):
    """-> None if equal else a description of the first difference."""
    from pint import Quantity
    if isinstance(want, Marker):
        if isinstance(got, str) and got.startswith(want.prefix):
            return None
        return '%s: %r is not a %s string' % (path, got, want.prefix)
    if isinstance(want, One):
        if type(got) in (int, float) and got == 1:
            return None
        return '%s: %r is not 1' % (path, got)
    if isinstance(want, Num):
        if type(got) in (int, float) and num_eq(
                float(got) if isinstance(want.v, float) else got, want.v):
            return None
        return '%s: %r != %r' % (path, got, want.v)
    if isinstance(want, Bag):
        if not isinstance(got, list) or len(got) != len(want.items):
            return '%s: %r vs set %r' % (path, got, want.items)
        rest = list(got)
        for w in want.items:
            for i, g in enumerate(rest):
                if type(g) is type(w) and g == w:
                    del rest[i]
                    break
            else:
                return '%s: element %r missing in %r' % (path, w, got)
        return None
    if isinstance(want, Quantity):
        if not isinstance(got, Quantity):
            return '%s: %r is not a quantity (want %r)' % (path, got, want)
        if got.units != want.units:
            return '%s: units %r != %r' % (path, got.units, want.units)
        gm, wm = got.magnitude, want.magnitude
        if isinstance(gm, bool) or type(gm) not in (int, float):
            return '%s: magnitude %r has type %s' % (path, gm, type(gm).__name__)
        if not num_eq(float(gm) if isinstance(wm, float) else gm, wm):
            return '%s: magnitude %r != %r' % (path, gm, wm)
        return None
    if isinstance(got, Quantity):
        return '%s: unexpected quantity %r (want %r)' % (path, got, want)
    if isinstance(want, dict):
        if type(got) is not dict or set(got) != set(want):
            return '%s: dict keys %r vs %r' % (path, got, want)
        for k in want:
            d = equal(got[k], want[k], path + '/' + k)
            if d:
                return d
        return None
    if isinstance(want, list):
        if type(got) is not list or len(got) != len(want):
            return '%s: list %r vs %r' % (path, got, want)
        for i, (g, w) in enumerate(zip(got, want)):
            d = equal(g, w, '%s[%d]' % (path, i))
            if d:
                return d
        return None
    if type(got) is not type(want):
        return '%s: %r (%s) vs %r (%s)' % (path, got, type(got).__name__,
                                           want, type(want).__name__)
    if not num_eq(got, want):
        return '%s: %r != %r' % (path, got, want)
    return None


def plain_json(x, path=''):
    if x is None or type(x) in (bool, int, float, str):
        return None
    if type(x) is list:
        for i, y in enumerate(x):
            d = plain_json(y, '%s[%d]' % (path, i))
            if d:
                return d
        return None
    if type(x) is dict:
        for k, y in x.items():
            if type(k) is not str:
                return '%s: key %r' % (path, k)
            d = plain_json(y, path + '/' + k)
            if d:
                return d
        return None
    return '%s: %r of type %s' % (path, x, type(x).__name__)


# ------------------------------------------------------------------ analysis

def scan(s, depth=0, acc=None):
    acc = acc if acc is not None else {'bad': False, 'deep': False,
                                       'kinds': set(), 'nonfinite_plain': False}
    t = s['t']
    acc['kinds'].add(t)
    if t == 'bad':
        acc['bad'] = True
    if t in ('q', 'unit', 'np', 'arr') and depth >= 2:
        acc['deep'] = True
    if t in ('list', 'tuple', 'set'):
        for x in s['v']:
            scan(x, depth + 1, acc)
    elif t == 'dict':
        for _, v in s['v']:
            scan(v, depth + 1, acc)
    elif t == 'q':
        acc['kinds'].add('q.' + s['mag']['t'])
    return acc


def dictify(s):
    """spec dicts are stored as lists of pairs (JSON keeps order and allows
    any str key); convert for `expected`."""
    return s


# ------------------------------------------------------------------ run_case

def _expected_tree(s, unitless=False):
    t = s['t']
    if t == 'dict':
        return {k: _expected_tree(v, unitless) for k, v in s['v']}
    if t in ('list', 'tuple'):
        return [_expected_tree(x, unitless) for x in s['v']]
    return expected(s, unitless)


def run_case(spec):
    from vivarium.core.serialize import serialize_value, deserialize_value
    res = Result()
    info = scan(spec['value'])
    for k in info['kinds']:
        res.label('has.' + k)
    try:
        value = build(spec['value'])
    except Exception as e:
        raise
    if info['bad']:
        res.label('class.negative')
        res.nontrivial = True
        try:
            out = serialize_value(value)
        except TypeError:
            return res
        except Exception as e:
            res.fail('negative.wrong_exception',
                     '%s instead of TypeError: %s' % (type(e).__name__, e))
            return res
        res.fail('negative.accepted', 'unsupported value serialised to %r' % (out,))
        return res
    res.label('class.positive')
    res.nontrivial = info['deep'] or bool(info['kinds'] & {'q', 'unit'})
    try:
        ser = serialize_value(value)
        d = plain_json(ser)
        if d:
            res.fail('not_plain_json', d)
            return res
        again = serialize_value(ser)
        if equal(again, ser) is not None or equal(ser, again) is not None:
            res.fail('not_idempotent', '%r -> %r' % (ser, again))
        import copy as _copy
        import json as _json
        before = _json.dumps(ser, sort_keys=True)
        back = deserialize_value(ser)
        d = equal(back, _expected_tree(spec['value']))
        if d:
            res.fail('round_trip', '%s  (serialized: %r)' % (d, ser))
        # the serialized data handed in is still the same plain JSON data
        # (an emitter hands out its stored rows for deserialization)
        d = plain_json(ser)
        if d or _json.dumps(ser, sort_keys=True) != before:
            res.fail('deserialize_changed_input', 'after deserialize_value the '
                     'serialized data is %r, was %s' % (ser, before))
        if spec['value']['t'] == 'dict' and spec.get('emit'):
            from vivarium.core.emitter import RAMEmitter
            em = RAMEmitter({})
            data = dict(build(spec['value']))
            data['time'] = 1.5
            em.emit({'table': 'history', 'data': data})
            em.emit({'table': 'configuration', 'data': {'x': object()}})
            raw = em.get_data()
            if list(raw) != [1.5]:
                res.fail('emitter.times', repr(list(raw)))
            else:
                want = _expected_tree(spec['value'])
                want.pop('time', None)
                d = plain_json(raw[1.5])
                if d:
                    res.fail('emitter.not_plain_json', d)
                d = equal(em.get_data_deserialized()[1.5], want)
                if d:
                    res.fail('emitter.round_trip', d)
                wantu = _expected_tree(spec['value'], unitless=True)
                wantu.pop('time', None)
                if 'set' not in info['kinds']:
                    d = equal(em.get_data_unitless()[1.5], wantu)
                    if d:
                        res.fail('emitter.unitless', d)
    except Exception as e:
        if innermost_is_harness(e):
            raise
        res.violations.append(exc_violation(e))
    return res


def core_tb(e):
    import traceback
    return ''.join(traceback.format_tb(e.__traceback__))


# ------------------------------------------------------------------ strategy

def hexfloat(x):
    return float(x).hex()


finite_floats = st.floats(allow_nan=False, allow_infinity=False).map(hexfloat)
edge_floats = st.sampled_from(
    [0.0, -0.0, 1e300, -1e300, 1e-300, 5e-324, 1.7976931348623157e308,
     0.1, 1 / 3, 1e16, 1e22, 123456789.12345679, -2.5]).map(hexfloat)
plain_float = st.builds(lambda v: {'t': 'float', 'v': v},
                        st.one_of(finite_floats, edge_floats))
mag_float = st.builds(lambda v: {'t': 'float', 'v': v},
                      st.one_of(finite_floats, edge_floats,
                                st.sampled_from(SPECIAL_FLOATS)))
texts = st.one_of(
    st.text(max_size=8),
    st.text(alphabet='!units[] 5gram', max_size=12),
    st.sampled_from(['', '!units[5 gram', 'x!units[5 gram]', '!Units[5 gram]',
                     '!units', '[]', '!ProcessSerializer[x]', ' !units[1 g]',
                     'nan', '!units[5 gram]x']),
).filter(lambda s: not s.startswith('!units['))

scalars = st.one_of(
    st.just({'t': 'none'}),
    st.booleans().map(lambda v: {'t': 'bool', 'v': v}),
    st.integers(-2 ** 63, 2 ** 64 - 1).map(lambda v: {'t': 'int', 'v': v}),
    st.integers(-1000, 1000).map(lambda v: {'t': 'int', 'v': v}),
    plain_float,
    texts.map(lambda v: {'t': 'str', 'v': v}),
)

np_scalars = st.one_of(
    st.builds(lambda d, v: {'t': 'np', 'dtype': d, 'v': v},
              st.sampled_from(['int8']), st.integers(-128, 127)),
    st.builds(lambda d, v: {'t': 'np', 'dtype': d, 'v': v},
              st.sampled_from(['int16', 'int32', 'int64']),
              st.integers(-2 ** 15, 2 ** 15 - 1)),
    st.integers(-2 ** 63, 2 ** 63 - 1).map(
        lambda v: {'t': 'np', 'dtype': 'int64', 'v': v}),
    st.integers(0, 2 ** 64 - 1).map(
        lambda v: {'t': 'np', 'dtype': 'uint64', 'v': v}),
    st.one_of(finite_floats, edge_floats).map(
        lambda v: {'t': 'np', 'dtype': 'float64', 'v': v}),
    st.booleans().map(lambda v: {'t': 'np', 'dtype': 'bool_', 'v': v}),
)


@st.composite
def arrays(draw):
    dtype = draw(st.sampled_from(['int64', 'float64', 'bool', 'str', 'int32']))
    shape = draw(st.lists(st.integers(0, 3), min_size=1, max_size=3))
    n = 1
    for d in shape:
        n *= d
    if dtype in ('int64', 'int32'):
        el = st.integers(-2 ** 31, 2 ** 31 - 1)
    elif dtype == 'float64':
        el = st.one_of(finite_floats, edge_floats)
    elif dtype == 'bool':
        el = st.booleans()
    else:
        el = st.text(alphabet='abc!', min_size=0, max_size=3)
    flat = draw(st.lists(el, min_size=n, max_size=n))
    if dtype == 'str' and n == 0:
        dtype = 'float64'
    return {'t': 'arr', 'dtype': dtype, 'shape': shape, 'v': flat,
            'layout': draw(st.sampled_from([None, None, 'F', 'stride']))}


@st.composite
def pool_units(draw):
    """A unit expression over the wide pool: a, a / b, a * b, a ** 2, 1 / a."""
    pool = unit_pool()
    a = draw(st.sampled_from(pool))
    shape = draw(st.sampled_from(['a', 'a', 'a/b', 'a*b', 'a**2', '1/a']))
    if a == 'dimensionless':
        return a
    if shape == 'a':
        return a
    if shape == 'a**2':
        return '%s ** 2' % a
    if shape == '1/a':
        return '1 / %s' % a
    b = draw(st.sampled_from(pool))
    if b == 'dimensionless':
        return a
    from vivarium.library.units import units
    expr = '%s %s %s' % (a, '/' if shape == 'a/b' else '*', b)
    return str(units(expr).units)       # pint's canonical spelling


@st.composite
def quantities(draw):
    unit = draw(st.one_of(st.sampled_from(UNITS), pool_units()))
    mag = draw(st.one_of(
        st.integers(-2 ** 53 + 1, 2 ** 53 - 1).map(lambda v: {'t': 'int', 'v': v}),
        st.integers(-5, 5).map(lambda v: {'t': 'int', 'v': v}),
        mag_float,
        st.one_of(finite_floats, edge_floats, st.sampled_from(SPECIAL_FLOATS)).map(
            lambda v: {'t': 'np', 'dtype': 'float64', 'v': v}),
        st.integers(-2 ** 40, 2 ** 40).map(
            lambda v: {'t': 'np', 'dtype': 'int64', 'v': v}),
        st.lists(st.integers(-9, 9), min_size=1, max_size=4).map(
            lambda v: {'t': 'arr', 'dtype': 'int64', 'shape': [len(v)], 'v': v}),
        st.lists(st.one_of(edge_floats, finite_floats), min_size=1,
                 max_size=3).map(
            lambda v: {'t': 'arr', 'dtype': 'float64', 'shape': [len(v)], 'v': v}),
    ))
    return {'t': 'q', 'mag': mag, 'unit': unit}


bad = st.sampled_from(['object', 'complex', 'bytes', 'frozenset', 'bigint',
                       'negbigint', 'intkey', 'tuplekey', 'npstrkey']).map(
    lambda k: {'t': 'bad', 'k': k})

hashables = st.one_of(
    st.integers(-5, 5).map(lambda v: {'t': 'int', 'v': v}),
    st.text(alphabet='ab', max_size=2).map(lambda v: {'t': 'str', 'v': v}),
)


def trees(leaves):
    return st.recursive(
        leaves,
        lambda ch: st.one_of(
            st.lists(ch, max_size=4).map(lambda v: {'t': 'list', 'v': v}),
            st.lists(ch, max_size=3).map(lambda v: {'t': 'tuple', 'v': v}),
            st.lists(st.tuples(texts, ch), max_size=4,
                     unique_by=lambda kv: kv[0]).map(
                lambda v: {'t': 'dict', 'v': [list(kv) for kv in v]}),
        ),
        max_leaves=12)


def leaves(with_bad):
    opts = [scalars, scalars, np_scalars, arrays(), quantities(), quantities(),
            st.one_of(st.sampled_from(UNITS), pool_units()).map(
                lambda u: {'t': 'unit', 'unit': u}),
            st.just({'t': 'proc'}), st.just({'t': 'func'}),
            st.lists(hashables, max_size=4).map(lambda v: {'t': 'set', 'v': v})]
    if with_bad:
        opts.append(bad)
        opts.append(bad)
    return st.one_of(*opts)


@st.composite
def strategy_(draw, tier):
    negative = draw(st.integers(0, 5)) == 0
    value = draw(trees(leaves(negative)))
    if draw(st.booleans()) and value['t'] != 'dict':
        # wrap so that the emitter path is exercised
        value = {'t': 'dict', 'v': [['v', value]]}
    emit = value['t'] == 'dict' and not any(k == 'time' for k, _ in value['v'])
    return {'value': value, 'emit': emit}


def strategy(tier):
    return strategy_(tier)


SIGNATURES = {}

"""C10  The engine runs exactly what is in the hierarchy after any structural history."""
import copy

from hypothesis import strategies as st

from vv import hier, kit, struct
from vv.core import Result, exc_violation, innermost_is_harness
from vv.ref import tree as ref
from vv.util import deq

ID = 'C10'
CASES = {'quick': 300, 'thorough': 20000}
HANG_IS_VIOLATION = True
RULE = ('Structural histories as in C09 (operator process, 1..6 batches of '
        '_add/_delete/_generate/_divide/_move on compartments) where '
        'compartments hold a resident process with a drawn timestep '
        '(0.5/1/1.5/2, so updates are in flight when structure changes), '
        'optionally a flow step and a legacy deriver, run in unforced '
        'run_for(1) chunks from a Composite. Recorded: every invocation with '
        'the identity of the instance, and at every emit the identities living '
        'in the hierarchy. Oracle: (i) no instance is invoked unless it is in '
        'the hierarchy at that moment; in every step phase exactly the steps '
        'in the hierarchy run, once; every live process is invoked for '
        'contiguous intervals from its creation time and does not lag; (ii) '
        'after every batch engine.processes/steps/flow/topology and the '
        'Composite passed in equal state.get_processes()/get_steps()/'
        'get_flow()/get_topology(); (iii) at a quiescent point a second engine '
        'built from deep copies of the published composite and the current '
        'values continues with an identical trajectory. Non-trivial = a '
        'structural op hits a compartment whose process has an update in '
        'flight, or a move of a compartment with steps, or two generations of '
        'division; distinct = spec hash.')
ASSUMPTIONS = [
    'the fate of the in-flight update of a process deleted/moved/divided away '
    'is unspecified (only: no exception, never invoked again under the old '
    'path)',
    'with a step operator the construction phase is only checked for "at most once" (the hierarchy before the first batch is not observed)',
]


def strategy(tier):
    return struct.histories(viewers=False, residents=True, inc_ok=True, replace_ok=True,
                            max_ticks=6 if tier == 'quick' else 10,
                            step_op_ok=True)


def live_instances(engine, keep=None):
    """{abs path: id(instance)} of every process/step in the hierarchy.
    Every instance seen is appended to `keep`: an instance that is never
    invoked (its interval never fitted into a call before it was deleted) would
    otherwise be freed and its id could be taken by a later instance."""
    from vivarium.core.process import Process
    out = {}

    def walk(store, path):
        for k, child in store.inner.items():
            if isinstance(child.value, Process):
                out[path + (k,)] = id(child.value)
                if keep is not None:
                    keep.append(child.value)
            else:
                walk(child, path + (k,))
    walk(engine.state, ())
    return out


def norm(x):
    """None == {} for composite parts; processes compared by identity."""
    if x is None:
        return {}
    if isinstance(x, dict):
        out = {k: norm(v) for k, v in x.items()}
        return {k: v for k, v in out.items() if v != {}}
    if isinstance(x, (list, tuple)):
        return [norm(v) for v in x]
    return x


def same_parts(a, b):
    """Deep comparison where process objects are compared by identity."""
    from vivarium.core.process import Process
    if isinstance(a, Process) or isinstance(b, Process):
        return None if a is b else '%r is not %r' % (a, b)
    if isinstance(a, dict) and isinstance(b, dict):
        if set(a) != set(b):
            return 'keys %r vs %r' % (sorted(a), sorted(b))
        for k in a:
            d = same_parts(a[k], b[k])
            if d:
                return '%s: %s' % (k, d)
        return None
    if isinstance(a, list) and isinstance(b, list):
        if len(a) != len(b):
            return '%r vs %r' % (a, b)
        for x, y in zip(a, b):
            d = same_parts(x, y)
            if d:
                return d
        return None
    return None if a == b else '%r vs %r' % (a, b)


def check_published(res, engine, composite, when):
    state = engine.state

    def both(procs, steps):
        # a legacy deriver may be listed under `processes`: which of the two
        # dictionaries holds a step is not part of the statement
        # (norm builds fresh dictionaries; the instances are not copied)
        return hier.deep_merge(norm(procs) or {}, norm(steps) or {})
    pairs = [('processes+steps', both(engine.processes, engine.steps),
              both(state.get_processes(), state.get_steps()),
              both(composite['processes'], composite['steps'])),
             ('flow', engine.flow, state.get_flow(), composite['flow']),
             ('topology', engine.topology, state.get_topology(),
              composite['topology'])]
    for name, published, stored, comp in pairs:
        d = same_parts(norm(published), norm(stored))
        if d:
            res.fail('published.' + name, '%s: engine.%s differs from the '
                     'hierarchy: %s\n published %r\n hierarchy %r'
                     % (when, name, d, norm(published), norm(stored)),
                     'engine.py:apply_update')
            return False
        d = same_parts(norm(comp), norm(stored))
        if d:
            res.fail('composite.' + name, '%s: the Composite the engine was '
                     'built from differs from the hierarchy in %s: %s'
                     % (when, name, d), 'engine.py:apply_update')
            return False
    return True


def run_case(spec):
    from vivarium.core.engine import Engine
    from vivarium.core.composer import Composite
    res = Result()
    kinds, n = struct.classify(spec, res)
    ctx = kit.Context()
    lives = []          # live instance maps recorded at every history emit
    try:
        kwargs = struct.build(spec, ctx)
        composite = Composite({
            'processes': kwargs.pop('processes'),
            'topology': kwargs.pop('topology'),
            'steps': kwargs.pop('steps', {}),
            'flow': kwargs.pop('flow', {}),
            'state': kwargs.pop('initial_state')})
        holder = {}

        class Spy(kit.RecEmitter):
            def emit(self, data):
                super().emit(data)
                if data.get('table') == 'history' and holder.get('engine'):
                    lives.append((len(ctx.log), data['data'].get('time'),
                                  live_instances(holder['engine'], ctx.keep)))
        from vivarium.core.registry import emitter_registry
        emitter_registry.registry['vv-spy'] = Spy
        engine = Engine(composite=composite, display_info=False,
                        emitter={'type': 'vv-spy', 'run_id': ctx.run_id})
        ctx.engine = engine
        holder['engine'] = engine
        lives.append((len(ctx.log), 0, live_instances(engine, ctx.keep)))
        if not check_published(res, engine, composite, 'after construction'):
            return res
        nt = len(spec['ticks'])
        done = 0
        for c in spec.get('chunks') or [1] * (nt + 1):
            engine.run_for(float(c), force_complete=False)
            done += c
            if not check_published(res, engine, composite,
                                   'after %d batches' % done):
                return res
        check_invocations(spec, res, ctx, lives, engine)
        if res.violations:
            return res
        # (iii) quiescent point, rebuilt engine
        engine.update(1.0)
        if not check_published(res, engine, composite, 'at quiescence'):
            return res
        check_rebuild(spec, res, ctx, engine)
    except Exception as e:
        if innermost_is_harness(e):
            raise
        res.violations.append(exc_violation(e))
    finally:
        ctx.close()
    return res


def check_invocations(spec, res, ctx, lives, engine):
    # index: for every log position the hierarchy as of the last emit
    inflight_hit = False
    phases = []          # (start_pos, end_pos, live map at end)
    prev_pos = 0
    # lives[0] is the state right after construction (log already holds the
    # initial phase); treat construction as phase 0
    for pos, t, live in lives:
        phases.append((prev_pos, pos, t, live))
        prev_pos = pos
    lives_all = []       # a life = one stay of an instance at one path
    open_lives = {}      # (id, path) -> life
    prev_live = {}
    for (a, b, t, live) in phases:
        lives_now = {(ident, path) for path, ident in live.items()}
        for key in list(open_lives):
            if key not in lives_now:
                open_lives.pop(key)['death'] = t
        for key in lives_now:
            if key not in open_lives:
                life = {'ident': key[0], 'path': key[1], 'birth': t,
                        'death': None, 'calls': []}
                open_lives[key] = life
                lives_all.append(life)
        where = {ident: path for path, ident in prev_live.items()}
        # events of this window happened while `prev_live` (invocations come
        # before the window's applications) or `live` (steps come after them)
        step_runs = {}
        step_order = []
        for ev in ctx.log[a:b]:
            if ev[0] == 'invoke' and ev[1] == 'grow':
                ident = ev[4]
                if ident not in where:
                    res.fail('invoked.not_live', 'process instance %d (%s) was '
                             'invoked at %r but is not in the hierarchy '
                             '(deleted, divided or moved away)'
                             % (ident, ev[1], ev[2]), 'engine.py:run_for')
                    return
                # the life that was open before this window's applications
                for life in reversed(lives_all):
                    if life['ident'] == ident and life['path'] == where[ident] \
                            and life['birth'] <= ev[2]:
                        life['calls'].append((ev[2], ev[3]))
                        break
            elif ev[0] == 'step' and ev[1] in ('obs', 'der', 'obs2'):
                step_runs[ev[4]] = step_runs.get(ev[4], 0) + 1
                step_order.append(ev[4])
        step_ids = {}
        if spec['op_is_step'] and t != 0:
            # the operator is a step of the first layer: derivers and 'obs'
            # steps of the hierarchy as it was when the phase began run once
            # (also those the operator deletes in this very phase); a step of
            # a later layer ('obs2') runs only if it is not deleted or moved
            # before its turn; steps created during the phase run first in
            # the next one
            before = {(i2, p2) for p2, i2 in prev_live.items()}
            for path, ident in prev_live.items():
                if path[-1] in ('obs', 'der'):
                    step_ids[ident] = path
                elif path[-1] == 'obs2' and live.get(path) == ident:
                    step_ids[ident] = path
        elif spec['op_is_step']:
            # construction phase: the hierarchy before the operator's first
            # batch was not observed; only "at most once" is checked
            for ident, n_runs in step_runs.items():
                if n_runs > 1:
                    res.fail('step.count', 'construction phase: a step ran %d '
                             'times' % n_runs, 'engine.py:run_steps')
                    return
            step_ids = None
        else:
            for path, ident in live.items():
                if path[-1] in ('obs', 'der', 'obs2'):
                    step_ids[ident] = path
        if step_ids is not None and (a != b or t == 0):
            for ident, path in step_ids.items():
                if step_runs.get(ident, 0) != 1:
                    res.fail('step.count', 'phase at %r: step %r ran %d times'
                             % (t, path, step_runs.get(ident, 0)),
                             'engine.py:run_steps')
                    return
            for ident in step_runs:
                if ident not in step_ids:
                    res.fail('step.not_live', 'phase at %r: a step ran that '
                             'was not in the hierarchy (or was deleted before '
                             'its turn, or created during this phase)' % (t,),
                             'engine.py:run_steps')
                    return
            # flow of generated/moved/divided steps: obs2 depends on obs
            byp = {path: ident for ident, path in (step_ids or {}).items()}
            for path, ident in byp.items():
                if path[-1] == 'obs2':
                    dep = byp.get(path[:-1] + ('obs',))
                    if dep in step_order and ident in step_order and \
                            step_order.index(ident) < step_order.index(dep):
                        res.fail('step.flow_order', 'phase at %r: %r ran before '
                                 'its dependency obs' % (t, path),
                                 'engine.py:apply_update')
                        return
        prev_live = live
    # process schedules
    final = engine.global_time
    tsof = {}
    invoked = {ev[4] for ev in ctx.log if ev[0] == 'invoke'}
    for obj in ctx.keep:
        if isinstance(obj, kit.AgentProc) and id(obj) in invoked:
            tsof[id(obj)] = obj.parameters['timestep']
    for life in lives_all:
        path, ident, b = life['path'], life['ident'], life['birth']
        if path[-1] != 'grow':
            continue
        d = life['death'] if life['death'] is not None else final
        calls = life['calls']
        if ident not in tsof:
            if d - b >= 3.0 + 1e-9:
                res.fail('process.never_invoked', 'process at %r lived from %r '
                         'to %r and was never invoked' % (path, b, d),
                         'engine.py:apply_update')
                return
            continue
        ts = tsof[ident]
        n = len(calls)
        for k, (g, arg) in enumerate(calls):
            start = b + k * ts
            if g < start - 1e-9:
                res.fail('process.early', 'process at %r (created at %r, '
                         'timestep %r): invocation %d at global time %r, before '
                         'its interval starts at %r' % (path, b, ts, k + 1, g,
                                                        start),
                         'engine.py:run_for')
                return
            if arg != ts:
                res.fail('process.timestep', 'process at %r got timestep %r, '
                         'requested %r' % (path, arg, ts))
                return
        if n and b + (n - 1) * ts >= d + 1e-9:
            res.fail('process.after_death', 'process at %r (alive %r..%r, '
                     'timestep %r) was invoked %d times' % (path, b, d, ts, n),
                     'engine.py:run_for')
            return
        if b + (n + 1) * ts <= d - 1.0 - 1e-9:
            res.fail('process.lagging', 'process at %r (alive %r..%r, timestep '
                     '%r) was invoked only %d times' % (path, b, d, ts, n),
                     'engine.py:run_for')
            return
        if life['death'] is not None and (d - b) % ts > 1e-9:
            inflight_hit = True
    check_values(spec, res, ctx, lives_all, engine, tsof)
    if res.violations:
        return
    moved_steps = any(op['op'] == 'move' for bt in spec['ticks'] for op in bt)
    ndiv = sum(op['op'] == 'divide' for bt in spec['ticks'] for op in bt)
    if inflight_hit:
        res.label('inflight_hit')
    res.nontrivial = inflight_hit or ndiv >= 2 or (
        moved_steps and any(r.get('step') or r.get('deriver')
                            for r in all_residents(spec)))


def check_values(spec, res, ctx, lives_all, engine, tsof):
    """Observable form across structure: while a resident with inc=1 lives at
    one path, its compartment's x at every emitted time T equals the value at
    the start of that life + one per completed interval + the plain value
    updates the operator applied to that compartment in the meantime."""
    rows = {}
    for r in engine.emitter.rows:
        if r.get('table') == 'history':
            rows[r['data']['time']] = r['data']
    sets = []        # (time applied, compartment path, delta on x)
    for ev in ctx.log:
        if ev[0] == 'op':
            for op in ev[4]:
                if op['op'] == 'set' and 'x' in op['delta']:
                    sets.append((ev[2] + (0.0 if spec['op_is_step'] else 1.0),
                                 ref.PORT_PATH[op['coll']] + (op['key'],),
                                 op['delta']['x']))
    incs = {}
    for obj in ctx.keep:
        if isinstance(obj, kit.AgentProc):
            incs[id(obj)] = obj.parameters['inc']
    final = engine.global_time
    for life in lives_all:
        path, ident, b = life['path'], life['ident'], life['birth']
        if path[-1] != 'grow' or ident not in tsof or not incs.get(ident):
            continue
        d = life['death'] if life['death'] is not None else final + 1
        ts = tsof[ident]
        comp = path[:-1]
        x0 = struct_get(rows.get(b), comp)
        if x0 is None:
            continue
        for T in sorted(rows):
            if T <= b or T >= d:
                continue
            got = struct_get(rows[T], comp)
            if got is None:
                continue
            k = int((T - b) / ts + 1e-9)
            want = x0 + k + sum(dx for (t, p, dx) in sets
                                if p == comp and b < t <= T + 1e-9)
            if got != want:
                res.fail('value', 'compartment %r (resident timestep %r, alive '
                         'from %r): x = %r at time %r, expected %r = %r at %r '
                         '+ %d completed intervals + operator updates'
                         % (comp, ts, b, got, T, want, x0, b, k),
                         'engine.py:run_for')
                return
        res.label('value_checked')


def struct_get(row, comp):
    cur = row
    for seg in comp:
        if not isinstance(cur, dict) or seg not in cur:
            return None
        cur = cur[seg]
    if isinstance(cur, dict) and isinstance(cur.get('x'), int):
        return cur['x']
    return None


def all_residents(spec):
    out = list(spec['residents'].values())
    for b in spec['ticks']:
        for op in b:
            if op.get('resident'):
                out.append(op['resident'])
    return out


def set_run_id(parts, rid):
    from vivarium.core.process import Process
    if isinstance(parts, Process):
        parts.parameters['run_id'] = rid
    elif isinstance(parts, dict):
        for v in parts.values():
            set_run_id(v, rid)


def check_rebuild(spec, res, ctx, engine):
    from vivarium.core.engine import Engine
    T = engine.global_time
    values = struct.strip(kit.plain_state(engine.state.get_value()))
    procs2 = copy.deepcopy(engine.processes)
    steps2 = copy.deepcopy(engine.steps)
    set_run_id(procs2, 0)
    set_run_id(steps2, 0)
    ctx2 = kit.Context(t0=T)
    try:
        kwargs = dict(processes=procs2, topology=copy.deepcopy(engine.topology),
                      initial_state=values, display_info=False,
                      emitter=kit.emitter_config(ctx2), initial_global_time=T)
        if steps2:
            kwargs.update(steps=steps2, flow=copy.deepcopy(engine.flow))
        engine2 = Engine(**kwargs)
        ctx2.engine = engine2
        rows_before = len(engine.emitter.rows)
        K = 3
        for _ in range(K):
            engine.update(1.0)
            engine2.update(1.0)
        rows1 = [r['data'] for r in engine.emitter.rows[rows_before:]
                 if r.get('table') == 'history']
        rows2 = [r['data'] for r in engine2.emitter.rows
                 if r.get('table') == 'history' and r['data']['time'] > T]
        if len(rows1) != len(rows2):
            res.fail('rebuild.rows', 'continued engine emitted %d rows, rebuilt '
                     'engine %d' % (len(rows1), len(rows2)))
            return
        for a, b in zip(rows1, rows2):
            d = deq(struct.strip(a), struct.strip(b))
            if d:
                res.fail('rebuild.trajectory', 'at time %r the engine rebuilt '
                         'from the published composite differs from the '
                         'continued one: %s' % (a.get('time'), d),
                         'engine.py:apply_update')
                return
    finally:
        ctx2.close()


SIGNATURES = {}

"""C19  Timeline events fire exactly once, on time, whatever the listing order.

Spec (plain data):
  {'mode': 'direct'|'engine'|'helper', 'dt': float, 'chunks': [ticks,...],
   'events': [[time, {'port/var': int, ...}], ...]   # in listing order
  }
Oracle: vv.ref.timeline (written from the statement): an event with time t
fires at the first tick k*dt >= t, once; events due in one tick are applied
in time order; equal times act as one merged event.
"""
import copy

from hypothesis import strategies as st

from vv.core import Result, exc_violation
from vv.ref import timeline as ref

ID = 'C19'
CASES = {'quick': 1000, 'thorough': 60000}
FUZZ_RUNS = 40000        # thorough tier: atheris workers, -runs per worker
RULE = ('Hypothesis draws 1..8 events on a 0.5 grid (duplicate times split '
        'into several events with disjoint variables, several events between '
        'two ticks), a listing permutation, a timeline timestep in '
        '{0.5,1,2,4}, 1..3 update() chunks and the initial value of the '
        'timeline\'s own clock (0, 0.5, 1 or 3: events already past fire in the '
        'first tick); executed (a) by driving '
        'TimelineProcess.next_update tick by tick, (b) in an Engine wired '
        'directly, (c) through composition.add_timeline; a Step adds 1 to '
        'every driven variable in every phase so a repeated set is visible. '
        'Non-trivial = listing not sorted by time, or duplicate times, or >=2 '
        'events due in one tick; distinct = distinct spec hash.')
ASSUMPTIONS = [
    'run lengths are whole multiples of the timeline timestep (truncated last '
    'intervals are C02\'s subject)',
    'events with equal times never name the same variable (statement: they '
    'act as one merged event; the winner of a clash is unspecified)',
]

VARS = ['s/x', 's/y', 's/z', 'r/x']


@st.composite
def strategy_(draw, tier):
    dt = draw(st.sampled_from([0.5, 1.0, 2.0, 4.0]))
    ntimes = draw(st.integers(1, 5))
    horizon = draw(st.sampled_from([4, 8, 16]))
    times = draw(st.lists(st.integers(0, horizon), min_size=ntimes,
                          max_size=ntimes, unique=True))
    events = []
    for t in times:
        keys = draw(st.lists(st.sampled_from(VARS), min_size=1, max_size=4,
                             unique=True))
        changes = {k: draw(st.integers(0, 9)) for k in keys}
        # split the merged event into 1..3 listed events (disjoint variables)
        nparts = draw(st.integers(1, min(3, len(keys))))
        parts = [dict() for _ in range(nparts)]
        for i, k in enumerate(keys):
            j = i if i < nparts else draw(st.integers(0, nparts - 1))
            parts[j][k] = changes[k]
        for p in parts:
            events.append([t * 0.5, p])
    events = events[:8]
    share = False
    if events and draw(st.integers(0, 3)) == 0:
        # the same changes listed again at another time (e.g. a 'reset');
        # with share=True both listings are one and the same dict object
        src = draw(st.sampled_from(events))
        free = [t for t in range(horizon + 1) if t not in times]
        if free:
            events.append([draw(st.sampled_from(free)) * 0.5, dict(src[1])])
            share = draw(st.booleans())
    events = draw(st.permutations(events))
    nchunks = draw(st.integers(1, 3))
    chunks = [draw(st.integers(1, 6)) for _ in range(nchunks)]
    mode = draw(st.sampled_from(['direct', 'engine', 'helper', 'experiment']))
    # the timeline's own clock (global/time) may start later than 0
    t0 = draw(st.sampled_from([0, 0, 0, 0.5, 1.0, 3.0]))
    return {'mode': mode, 'dt': dt, 'chunks': chunks, 't0': t0,
            'share': share, 'events': [list(e) for e in events]}


def strategy(tier):
    return strategy_(tier)


def _key(k):
    return tuple(k.split('/'))


def build_events(spec, share=None):
    """The timeline as handed to TimelineProcess.  With sharing, events whose
    changes are equal hold one and the same dict object (a user listing a
    named dict several times)."""
    share = spec.get('share') if share is None else share
    out, seen = [], {}
    for t, ch in copy.deepcopy(spec['events']):
        d = {_key(k): v for k, v in ch.items()}
        if share:
            sig = tuple(sorted(d.items()))
            d = seen.setdefault(sig, d)
        out.append((t, d))
    return out


def classify(spec, res):
    ev = spec['events']
    times = [e[0] for e in ev]
    dt = spec['dt']
    if times != sorted(times):
        res.label('listing.unsorted')
    if len(set(times)) < len(times):
        res.label('times.duplicate')
    # events due in the same tick: same ceil(t/dt) for distinct times
    ticks = {}
    for t in set(times):
        ticks.setdefault(ref.first_tick(t, dt), []).append(t)
    if any(len(v) > 1 for v in ticks.values()):
        res.label('tick.multiple_due')
    res.label('mode.' + spec['mode'])
    if spec.get('t0'):
        res.label('clock_starts_late')
    if spec.get('share'):
        res.label('events_share_a_dict')
    res.nontrivial = bool(res.labels & {
        'listing.unsorted', 'times.duplicate', 'tick.multiple_due'})


def run_direct(spec, res):
    from vivarium.processes.timeline import TimelineProcess
    dt = spec['dt']
    nticks = sum(spec['chunks'])
    events = build_events(spec)
    t0 = spec.get('t0', 0)
    expected = ref.fired_per_tick(build_events(spec, share=False), dt, nticks,
                                  t0)
    tp = TimelineProcess({'timeline': events, 'time_step': dt})
    schema = tp.ports_schema()
    want_ports = {k[0] for _, ch in build_events(spec, share=False)
                  for k in ch} | {'global'}
    if set(schema) != want_ports:
        res.fail('ports', 'ports %r != %r' % (sorted(schema), sorted(want_ports)))
    for k in range(nticks):
        now = t0 + k * dt
        upd = tp.next_update(dt, {'global': {'time': now}})
        got = {}
        for port, sub in upd.items():
            if port == 'global':
                if sub != {'time': dt}:
                    res.fail('clock', 'tick %d: global update %r' % (k, sub))
                continue
            for var, u in sub.items():
                if not (isinstance(u, dict) and u.get('_updater') == 'set'):
                    res.fail('shape', 'tick %d: update %r' % (k, u))
                    continue
                got[(port, var)] = u.get('_value')
        if got != expected[k]:
            res.fail('fire', 'tick %d (t=%s): fired %r, expected %r'
                     % (k, now, got, expected[k]))
            return


def make_inc_step(varkeys):
    from vivarium.core.process import Step

    class IncStep(Step):
        name = 'inc'

        def ports_schema(self):
            schema = {}
            for port, var in varkeys:
                schema.setdefault(port, {})[var] = {
                    '_default': 0, '_emit': True}
            return schema

        def next_update(self, timestep, states):
            return {port: {var: 1 for var in vs}
                    for port, vs in self.ports_schema().items()}
    return IncStep()


def make_declarer(varkeys):
    from vivarium.core.process import Process

    class Declarer(Process):
        name = 'declarer'

        def ports_schema(self):
            schema = {}
            for port, var in varkeys:
                schema.setdefault(port, {})[var] = {
                    '_default': 0, '_emit': True}
            return schema

        def next_update(self, timestep, states):
            return {}
    return Declarer()


def run_experiment(spec, res):
    """The composition helper: process_in_experiment(settings={'timeline'})."""
    from vivarium.core.composition import process_in_experiment
    dt = spec['dt']
    events = build_events(spec)
    varkeys = sorted({k for _, ch in events for k in ch})
    engine = process_in_experiment(
        make_declarer(varkeys),
        settings={'timeline': {'timeline': events, 'time_step': dt},
                  'initial_state': {'global': {'time': spec.get('t0', 0)}},
                  'display_info': False})
    total = 0
    for c in spec['chunks']:
        engine.update(c * dt)
        total += c
    data = engine.emitter.get_data()
    # the declarer runs with timestep 1: rows also exist at whole seconds;
    # compare at the timeline's ticks
    expected = ref.trajectory(build_events(spec, share=False), dt, total,
                              varkeys, inc=0, t0=spec.get('t0', 0))
    for k in range(total + 1):
        t = k * dt
        row = data.get(t)
        if row is None:
            res.fail('times', 'no emitted row at the timeline tick t=%r (rows '
                     'at %r)' % (t, sorted(data)))
            return
        for (port, var) in varkeys:
            got = row.get(port, {}).get(var, 'MISSING')
            if got != expected[k][(port, var)]:
                res.fail('trajectory', 't=%s %s/%s: emitted %r, expected %r '
                         '(process_in_experiment)' % (
                             t, port, var, got, expected[k][(port, var)]))
                return


def run_engine(spec, res):
    from vivarium.core.engine import Engine
    from vivarium.processes.timeline import TimelineProcess
    dt = spec['dt']
    events = build_events(spec)
    varkeys = sorted({k for _, ch in events for k in ch})
    ports = sorted({k[0] for k in varkeys})
    if spec['mode'] == 'helper':
        from vivarium.core.composition import add_timeline
        processes, topology = {}, {}
        add_timeline(processes, topology,
                     {'timeline': events, 'time_step': dt})
    else:
        tp = TimelineProcess({'timeline': events, 'time_step': dt})
        processes = {'timeline': tp}
        topology = {'timeline': dict({p: (p,) for p in ports},
                                     **{'global': ('global',)})}
    steps = {'inc': make_inc_step(varkeys)}
    topology['inc'] = {p: (p,) for p in ports}
    engine = Engine(processes=processes, steps=steps, topology=topology,
                    initial_state={'global': {'time': spec.get('t0', 0)}},
                    display_info=False, emitter='timeseries')
    total = 0
    for c in spec['chunks']:
        engine.update(c * dt)
        total += c
    data = engine.emitter.get_data()
    expected = ref.trajectory(build_events(spec, share=False), dt, total,
                              varkeys, t0=spec.get('t0', 0))
    times = sorted(data)
    want_times = [k * dt for k in range(total + 1)]
    if times != want_times:
        res.fail('times', 'emitted times %r != %r' % (times, want_times))
        return
    for k, t in enumerate(times):
        row = data[t]
        for (port, var) in varkeys:
            got = row.get(port, {}).get(var, 'MISSING')
            if got != expected[k][(port, var)]:
                res.fail('trajectory',
                         't=%s %s/%s: emitted %r, expected %r (expected '
                         'column %r)' % (t, port, var, got,
                                         expected[k][(port, var)],
                                         [e[(port, var)] for e in expected]))
                return


def run_case(spec):
    res = Result()
    classify(spec, res)
    try:
        if spec['mode'] == 'direct':
            run_direct(spec, res)
        elif spec['mode'] == 'experiment':
            run_experiment(spec, res)
        else:
            run_engine(spec, res)
    except Exception as e:
        from vv.core import innermost_is_harness
        if innermost_is_harness(e):
            raise
        res.violations.append(exc_violation(e))
    return res


SIGNATURES = {}

"""C11  Division gives daughters what the dividers promise; daughters are independent."""
import copy
import math
import random

from hypothesis import strategies as st

from vv import kit
from vv.core import Result, exc_violation, innermost_is_harness
from vv.util import deq, getp, put, tree_leaves

ID = 'C11'
CASES = {'quick': 600, 'thorough': 40000}
RULE = ('Hypothesis draws a mother compartment with 1..6 variables at depth '
        '1..3, each with a divider and a value from that divider\'s domain: set '
        '(int, float, str, list, dict, array), split (odd/even/zero/large ints '
        'up to 2^62, dyadic and non-dyadic floats, quantities, inf), split_dict, '
        'binomial, zero, set_value (config), a user divider with topology and '
        'config, null (schema default fills), a branch-level split_dict, and a '
        'dict variable under the in-place dict_value updater; optional explicit '
        'daughter initial states; 1..3 generations; division triggered by an '
        'external process (explicit daughters or copy of the mother), by the '
        'cell\'s own process or by a step of the cell; RNG seeds drawn. Oracle: '
        'per-divider conservation laws between the mother\'s values just before '
        'and the daughters\' values just after the dividing batch, override '
        'wins, defaults fill, distinct process instances; then two ticks in '
        'which only cells flagged active are updated: every other cell and '
        'everything outside must stay deep-equal. Non-trivial = odd split, '
        'non-empty split_dict, an override, >=2 generations or a large int; '
        'distinct = spec hash.')
ASSUMPTIONS = [
    'negative counts are outside the stated domain of split/binomial and are '
    'not generated; non-dyadic float halves are compared with rel. tol. 1e-15',
    'divider topology paths are relative to the variable\'s own node',
]

UNITS = ['gram', 'millimole / liter']


# ------------------------------------------------------------------ strategy

dyadic = st.integers(0, 400).map(lambda k: k / 8)


@st.composite
def variable(draw, name):
    div = draw(st.sampled_from(['set', None, 'split', 'split', 'split_dict',
                                'binomial', 'zero', 'set_value', 'user',
                                'null']))
    v = {'name': name, 'div': div}
    if div in ('set', None):
        kind = draw(st.sampled_from(['int', 'float', 'str', 'list', 'dict',
                                     'arr']))
        v['kind'] = kind
        v['val'] = draw({
            'int': st.integers(-5, 50), 'float': dyadic,
            'str': st.sampled_from(['', 'abc', 'x']),
            'list': st.lists(st.integers(0, 9), max_size=3),
            'dict': st.dictionaries(st.sampled_from(['p', 'q']),
                                    st.integers(0, 9), max_size=2),
            'arr': st.lists(st.integers(0, 9), min_size=1, max_size=3)}[kind])
    elif div == 'split':
        kind = draw(st.sampled_from(['int', 'int', 'bigint', 'float',
                                     'float_nd', 'q', 'inf']))
        v['kind'] = kind
        if kind == 'int':
            v['val'] = draw(st.integers(0, 101))
        elif kind == 'bigint':
            v['val'] = draw(st.sampled_from(
                [2 ** 60 + 3, 10 ** 18 + 7, 2 ** 53 + 1, 2 ** 62 + 1,
                 2 ** 54 + 2, 3 * 10 ** 17 + 1]))
        elif kind == 'float':
            v['val'] = draw(dyadic)
        elif kind == 'float_nd':
            v['val'] = draw(st.sampled_from([0.1, 1 / 3, 2.7, 1e-9, 123.456]))
        elif kind == 'q':
            v['val'] = draw(st.one_of(st.integers(0, 50), dyadic))
            v['unit'] = draw(st.sampled_from(UNITS))
        else:
            v['val'] = None
    elif div == 'split_dict':
        v['kind'] = 'dict'
        v['val'] = draw(st.dictionaries(
            st.sampled_from(['k1', 'k2', 'k3', 'k4', 'k5']),
            st.integers(0, 9), max_size=5))
    elif div == 'binomial':
        v['kind'] = 'int'
        v['val'] = draw(st.integers(0, 1000))
    elif div == 'zero':
        # zeros whatever the mother holds (also inf, as an 'infinite
        # reservoir', or a string)
        v['kind'] = draw(st.sampled_from(['int', 'int', 'inf', 'str']))
        v['val'] = {'int': draw(st.integers(0, 50)), 'inf': None,
                    'str': 'abc'}[v['kind']]
    elif div == 'set_value':
        v['kind'] = 'int'
        v['val'] = draw(st.integers(0, 50))
        v['sv'] = draw(st.integers(100, 150))
    elif div == 'user':
        v['kind'] = 'int'
        v['val'] = draw(st.integers(0, 50))
        v['k'] = draw(st.integers(1, 3))
        v['other'] = draw(st.integers(0, 9))
    else:
        v['kind'] = 'int'
        v['val'] = draw(st.integers(1, 50))
    v['default'] = {'int': 0, 'bigint': 0, 'float': 0.0, 'float_nd': 0.0,
                    'str': 'dflt', 'list': [], 'dict': {}, 'arr': [0],
                    'q': 0, 'inf': None}[v['kind']]
    if div == 'null':
        v['default'] = 77
    return v


@st.composite
def strategy_(draw, tier):
    n = draw(st.integers(1, 6))
    vars_ = []
    places = [[], ['sub'], ['sub', 'deep'], ['side']]
    for i in range(n):
        v = draw(variable('v%d' % i))
        base = draw(st.sampled_from(places))
        if v['div'] == 'user':
            base = base + ['u%d' % i]       # own branch holding v and 'other'
        v['path'] = base + [v['name']]
        # declared only by the process outside the compartment (through its
        # glob sub-schema), not by the cell's own processes
        if v['div'] != 'user' and draw(st.integers(0, 3)) == 0:
            v['outer'] = True
            v['path'] = ['env'] + v['path']
        vars_.append(v)
    bag = None
    if draw(st.integers(0, 3)) == 0:
        keys = draw(st.lists(st.sampled_from(['b1', 'b2', 'b3', 'b4']),
                             min_size=1, max_size=4, unique=True))
        bag = {k: draw(st.integers(1, 20)) for k in keys}
    dv = draw(st.integers(0, 3)) == 0
    gens = draw(st.sampled_from([1, 1, 2, 3]))
    plan = ['0']
    cur = '0'
    for g in range(gens - 1):
        cur = cur + draw(st.sampled_from('01'))
        plan.append(cur)
    if gens >= 2 and draw(st.booleans()):
        plan.append(plan[0] + ('1' if plan[1].endswith('0') else '0'))
    overrides = {}
    ints = [v for v in vars_ if v['kind'] == 'int' and v['div'] in
            ('set', None, 'split', 'zero', 'binomial')]
    for m in plan:
        ov = [{}, {}]
        if ints and draw(st.booleans()):
            v = draw(st.sampled_from(ints))
            side = draw(st.integers(0, 1))
            put(ov[side], v['path'], draw(st.one_of(
                st.just(0), st.integers(200, 250))))
        overrides[m] = ov
    return {'vars': vars_, 'bag': bag, 'dv': dv, 'plan': plan,
            'trigger': draw(st.sampled_from(['ext_explicit', 'ext_copy',
                                             'self_process', 'self_step'])),
            'overrides': overrides, 'extra': draw(st.booleans()),
            'seeds': [draw(st.integers(0, 999)), draw(st.integers(0, 999))]}


def strategy(tier):
    return strategy_(tier)


# ------------------------------------------------------------------ build

def schema_desc(spec, extra=False, outer=False):
    """outer=False: what the cell's own processes declare; outer=True: what
    only the outside process declares for every cell ('*' sub-schema)."""
    desc = {} if outer else {
        'active': {'_default': 0, '_updater': 'set', '_emit': True}}
    for v in spec['vars']:
        if bool(v.get('outer')) != outer:
            continue
        leaf = {'_default': v['default'], '_emit': True}
        if v['div'] is not None:
            leaf['_divider'] = v['div']
        if v['kind'] == 'q':
            leaf['_unit'] = v['unit']
        if v['kind'] == 'arr':
            leaf['_array'] = True
        if v['kind'] == 'inf':
            leaf['_inf'] = True
        if v['kind'] in ('str', 'list', 'dict', 'arr') or v['div'] in (
                'set_value', 'null'):
            leaf['_updater'] = 'set'
        if v['div'] in ('set', None) and v['kind'] in ('list', 'arr'):
            # in-place updaters: a daughter's update must not reach objects
            # its sister holds
            leaf['_updater'] = 'vv_extend' if v['kind'] == 'list' else 'vv_iadd'
        if v['div'] == 'set_value':
            leaf['_sv'] = v['sv']
        if v['div'] == 'user':
            leaf['_k'] = v['k']
            put(desc, v['path'][:-1] + ['other'],
                {'_default': 0, '_emit': True})
        put(desc, v['path'], leaf)
    if outer:
        return desc
    if spec['bag']:
        b = {'_divider': 'split_dict'}
        for k in ['b1', 'b2', 'b3', 'b4']:
            if k in spec['bag']:
                b[k] = {'_default': 0, '_emit': True}
        desc['bag'] = b
    if spec['dv']:
        desc['dv'] = {'_default': {}, '_updater': 'dict_value', '_emit': True}
    if extra:
        desc['extra'] = {'_default': 42, '_emit': True}
    return desc


def value_of(v):
    import numpy as np
    from vivarium.library.units import units
    if v['kind'] == 'q':
        return v['val'] * units(v['unit']).units
    if v['kind'] == 'arr':
        return np.array(v['val'])
    if v['kind'] == 'inf':
        return float('inf')
    return copy.deepcopy(v['val'])


def mother_state(spec):
    st_ = {'active': 0}
    for v in spec['vars']:
        put(st_, v['path'], value_of(v))
        if v['div'] == 'user':
            put(st_, v['path'][:-1] + ['other'], v['other'])
    if spec['bag']:
        st_['bag'] = dict(spec['bag'])
    if spec['dv']:
        st_['dv'] = {'k': {'n': 1}}
    return st_


# ------------------------------------------------------------------ laws

def check_laws(res, spec, mother, pre, d0, d1, ov):
    """pre/d0/d1: value trees of the 'st' store."""
    for v in spec['vars']:
        m = getp(pre, v['path'], KeyError)
        a = getp(d0, v['path'], KeyError)
        b = getp(d1, v['path'], KeyError)
        where = '%s: %s (divider %s)' % (mother, '/'.join(v['path']), v['div'])
        if a is KeyError or b is KeyError:
            res.fail('missing', '%s missing in a daughter' % where)
            continue
        o0 = getp(ov[0], v['path'], KeyError)
        o1 = getp(ov[1], v['path'], KeyError)
        if o0 is not KeyError or o1 is not KeyError:
            res.label('override')
            if o0 is not KeyError and a != o0:
                res.fail('override', '%s: daughter 0 holds %r, explicit '
                         'initial state %r' % (where, a, o0), 'store.py:divide')
            if o1 is not KeyError and b != o1:
                res.fail('override', '%s: daughter 1 holds %r, explicit '
                         'initial state %r' % (where, b, o1), 'store.py:divide')
            continue
        div = v['div']
        if div in ('set', None):
            if deq(a, m) or deq(b, m):
                res.fail('set', '%s: mother %r, daughters %r / %r'
                         % (where, m, a, b), 'registry.py:divide_set')
        elif div == 'split':
            kind = v['kind']
            if kind in ('int', 'bigint'):
                if m % 2:
                    res.label('split.odd')
                if kind == 'bigint':
                    res.label('split.bigint')
                if a + b != m or abs(a - b) > 1:
                    res.fail('split.int', '%s: mother %r, daughters %r + %r = '
                             '%r' % (where, m, a, b, a + b),
                             'registry.py:divide_split')
            elif kind == 'inf':
                if not (a == float('inf') and b == float('inf')):
                    res.fail('split.inf', '%s: %r / %r' % (where, a, b))
            elif kind == 'q':
                if a.units != m.units or b.units != m.units:
                    res.fail('split.units', '%s: %r -> %r / %r' % (where, m, a, b))
                elif a.magnitude != b.magnitude or not math.isclose(
                        a.magnitude + b.magnitude, m.magnitude, rel_tol=1e-15):
                    res.fail('split.quantity', '%s: %r -> %r / %r'
                             % (where, m, a, b), 'registry.py:divide_split')
            else:
                exact = kind == 'float'
                ok = a == b and (a + b == m if exact else
                                 math.isclose(a + b, m, rel_tol=1e-15))
                if not ok:
                    res.fail('split.float', '%s: %r -> %r / %r'
                             % (where, m, a, b), 'registry.py:divide_split')
        elif div == 'split_dict':
            if m:
                res.label('split_dict.nonempty')
            if set(a) & set(b) or set(a) | set(b) != set(m) or \
                    abs(len(a) - len(b)) > 1 or \
                    any(a[k] != m[k] for k in a) or any(b[k] != m[k] for k in b):
                res.fail('split_dict', '%s: %r -> %r / %r' % (where, m, a, b),
                         'registry.py:divide_split_dict')
        elif div == 'binomial':
            if a + b != m or a < 0 or b < 0:
                res.fail('binomial', '%s: %r -> %r / %r' % (where, m, a, b),
                         'registry.py:divide_binomial')
        elif div == 'zero':
            if a != 0 or b != 0:
                res.fail('zero', '%s: %r / %r' % (where, a, b))
        elif div == 'set_value':
            if a != v['sv'] or b != v['sv']:
                res.fail('set_value', '%s: %r / %r, configured %r'
                         % (where, a, b, v['sv']))
        elif div == 'user':
            other = getp(pre, v['path'][:-1] + ['other'])
            if a != m + other * v['k'] or b != m - other * v['k']:
                res.fail('user', '%s: mother %r, other %r, k %r -> %r / %r'
                         % (where, m, other, v['k'], a, b), 'store.py:divide_value')
        elif div == 'null':
            if a != v['default'] or b != v['default']:
                res.fail('null', '%s: daughters %r / %r, schema default %r'
                         % (where, a, b, v['default']), 'store.py:divide')
    if spec['bag']:
        m = pre.get('bag', {})
        a, b = d0.get('bag', {}), d1.get('bag', {})
        # share (+) defaults: every key present in both; each key keeps the
        # mother's value in exactly one daughter and the default 0 in the other
        for k, mv in m.items():
            pair = sorted([a.get(k, KeyError), b.get(k, KeyError)], key=str)
            if sorted([0, mv], key=str) != pair:
                res.fail('branch.split_dict', '%s: bag/%s mother %r, daughters '
                         '%r / %r' % (mother, k, mv, a.get(k, 'MISSING'),
                                      b.get(k, 'MISSING')), 'store.py:divide')
        # which daughter got a key is only visible for values != default; the
        # "sizes differ by at most one" law is checked when all are visible
        if all(mv != 0 for mv in m.values()):
            n0 = sum(1 for k in m if a.get(k) == m[k])
            if abs(n0 - (len(m) - n0)) > 1:
                res.fail('branch.split_dict', '%s: bag shares %d / %d'
                         % (mother, n0, len(m) - n0))
    if spec['dv']:
        if d0.get('dv') != pre.get('dv') or d1.get('dv') != pre.get('dv'):
            res.fail('set', '%s: dv %r -> %r / %r' % (
                mother, pre.get('dv'), d0.get('dv'), d1.get('dv')))


# ------------------------------------------------------------------ run

def cells(engine):
    whole = kit.plain_state(engine.state.get_value())
    out = {}
    for cid, cell in whole.get('agents', {}).items():
        out[cid] = cell.get('st', {})
    return out, whole


def proc_ids(engine, keep=None):
    out = {}
    agents = engine.state.inner['agents']
    for cid, cell in agents.inner.items():
        for name, node in cell.inner.items():
            if name in ('cellproc', 'cellstep'):
                out[(cid, name)] = id(node.value)
                if keep is not None:
                    keep.append(node.value)     # ids stay unique while alive
    return out


def run_case(spec):
    from vivarium.core.engine import Engine
    import numpy as np
    res = Result()
    res.label('trigger.' + spec['trigger'])
    if len(spec['plan']) >= 2:
        res.label('generations>=2')
    ctx = kit.Context()
    try:
        random.seed(spec['seeds'][0])
        np.random.seed(spec['seeds'][1])
        trig = spec['trigger']
        desc = schema_desc(spec)
        mode = {'ext_explicit': 'ext', 'ext_copy': 'ext',
                'self_process': 'self_process', 'self_step': 'self_step'}[trig]
        p, s, f, t = kit.cell_parts(ctx.run_id, '0', desc, mode)
        processes = {'agents': {'0': p},
                     'DIV': kit.DivProcess({'name': 'DIV', 'run_id': ctx.run_id,
                                            'schema': desc, 'mode': trig,
                                            'outer': schema_desc(
                                                spec, outer=True)})}
        if any(v.get('outer') for v in spec['vars']):
            res.label('declared_outside_only')
        topology = {'agents': {'0': t},
                    'DIV': {'agents': ('agents',), 'clock': ('clock',)}}
        kwargs = dict(processes=processes, topology=topology,
                      initial_state={'agents': {'0': {'st': mother_state(spec)}}},
                      display_info=False, emitter=kit.emitter_config(ctx))
        if s:
            kwargs.update(steps={'agents': {'0': s}},
                          flow={'agents': {'0': f}})
        engine = Engine(**kwargs)
        ctx.engine = engine
        ov_all = {}
        for m, ov in spec['overrides'].items():
            o = copy.deepcopy(ov)
            o[0]['active'] = 1
            o[1]['active'] = 0
            ov_all[m] = o
        ctx.counters['overrides'] = ov_all
        seen_ids = set(proc_ids(engine, ctx.keep).values())
        for mother in spec['plan']:
            pre_cells, _ = cells(engine)
            if mother not in pre_cells:
                raise AssertionError('plan names a missing cell %r' % mother)
            pre = copy.deepcopy(pre_cells[mother])
            mother_ids = {v for k, v in proc_ids(engine, ctx.keep).items()
                          if k[0] == mother}
            ctx.counters['divide_now'] = mother
            engine.update(1)
            post_cells, _ = cells(engine)
            if mother in post_cells or mother + '0' not in post_cells or \
                    mother + '1' not in post_cells:
                res.fail('divide', 'after dividing %r the cells are %r'
                         % (mother, sorted(post_cells)), 'store.py:divide')
                return res
            ov = ov_all[mother]
            check_laws(res, spec, mother, pre, post_cells[mother + '0'],
                       post_cells[mother + '1'], ov)
            for side in (0, 1):
                if post_cells[mother + str(side)].get('active') != \
                        ov[side]['active']:
                    res.fail('override', 'active flag of %s%d' % (mother, side))
            # untouched cells keep their values
            for cid, val in pre_cells.items():
                if cid != mother and deq(post_cells.get(cid), val):
                    res.fail('frame', 'cell %r changed while %r divided'
                             % (cid, mother))
            ids = proc_ids(engine, ctx.keep)
            dids = [v for k, v in ids.items() if k[0] in (mother + '0',
                                                          mother + '1')]
            if len(set(dids)) != len(dids) or set(dids) & mother_ids or \
                    set(dids) & seen_ids:
                res.fail('instances', 'daughters of %r share process '
                         'instances with each other or with the mother'
                         % mother, 'store.py:divide')
            if trig != 'ext_copy':
                pass
            seen_ids |= set(dids)
            if res.violations:
                return res
        # ---- independence
        before_cells, before_whole = cells(engine)
        before_cells = copy.deepcopy(before_cells)
        act = {}
        for v in spec['vars']:
            if v['kind'] == 'int' and not v.get('outer') and v['div'] in (
                    'set', None, 'split', 'zero', 'binomial', 'user'):
                put(act, v['path'], 1)
        for v in spec['vars']:
            if v['div'] in ('set', None) and not v.get('outer'):
                if v['kind'] == 'list':
                    put(act, v['path'], [99])
                elif v['kind'] == 'arr':
                    put(act, v['path'], 1)
        if spec['dv']:
            act['dv'] = {'k': {'n': 5}}
        if not act:
            act = {'active': 1}
        ctx.counters['act_update'] = act
        ctx.counters['acting'] = True
        engine.update(2)
        after_cells, after_whole = cells(engine)
        active = [c for c, v in before_cells.items() if v.get('active') == 1]
        for cid, val in before_cells.items():
            if val.get('active') == 1:
                continue
            d = deq(after_cells.get(cid), val)
            if d:
                res.fail('independence', 'cell %r (not active) changed while '
                         'only %r were updated: %s' % (cid, active, d),
                         'registry.py:divide_set')
                break
        for k in before_whole:
            if k not in ('agents', 'clock') and deq(after_whole[k],
                                                    before_whole[k]):
                res.fail('independence.outside', k)
        res.nontrivial = bool(res.labels & {
            'split.odd', 'split_dict.nonempty', 'override', 'generations>=2',
            'split.bigint'})
    except Exception as e:
        if innermost_is_harness(e):
            raise
        res.violations.append(exc_violation(e))
    finally:
        ctx.close()
    return res


SIGNATURES = {}

"""C18  Timeseries and query views of emitted data lose nothing.

Spec: {'mode': 'pure'|'emitter'|'engine',
       'shape': tree of leaf tags ('int','float','bool','str','list','q:<unit>'),
       'times': [t0<t1<...], 'cells': {path-string: [value per time]},
       'query': [[seg,...], ...] | None}
Oracle: direct cell-by-cell transposition written from the statement.
"""
import copy

from hypothesis import strategies as st

from vv.core import Result, exc_violation, innermost_is_harness

ID = 'C18'
CASES = {'quick': 1000, 'thorough': 60000}
FUZZ_RUNS = 40000        # thorough tier: atheris workers, -runs per worker
RULE = ('Hypothesis draws a fixed-shape tree (depth <=4, keys a,b,c,x), 1..6 '
        'increasing times, a value for every (leaf,time) cell from ints incl 0, '
        'floats, bools, "", strings, [], lists and quantities (one unit per '
        'leaf), and a query path set (existing leaves, branch prefixes, missing '
        'paths); the history is turned into embedded and path timeseries '
        '(pure functions), or emitted through RAMEmitter / a real Engine whose '
        'process sets the variables, then read back with get_data(query), '
        'get_timeseries, get_path_timeseries, get_data_unitless. Non-trivial = '
        'a falsy value on a queried path, or a quantity cell, or depth>=3; '
        'distinct = spec hash.')
ASSUMPTIONS = [
    'histories have the same shape at every time (statement: "variables exist '
    'at every emitted time"); no variable is called "time"; None values only '
    'in the pure and RAM-emitter modes (Store.emit_data never emits None)',
]

KEYS = ['a', 'b', 'c', 'x', 'ab', 'a_b']    # 'a' is a string prefix of 'ab'
UNITS = ['gram', 'millimole / liter', '1 / second']


def unit_of(name):
    from vivarium.library.units import units
    return units(name).units


def leaf_paths(shape, path=()):
    if isinstance(shape, dict):
        out = []
        for k, v in shape.items():
            out.extend(leaf_paths(v, path + (k,)))
        return out
    return [(path, shape)]


def pkey(path):
    return '/'.join(path)


def cell_value(tag, raw):
    if tag.startswith('q:'):
        return raw * unit_of(tag[2:])
    return copy.deepcopy(raw)


def build_data(spec):
    """-> {t: tree} raw data with real values."""
    data = {}
    lp = leaf_paths(spec['shape'])
    absent = spec.get('absent') or {}
    order = spec.get('order') or list(range(len(spec['times'])))
    for i in order:
        t = spec['times'][i]
        row = {}
        for path, tag in lp:
            if absent.get(pkey(path)) and absent[pkey(path)][i]:
                continue        # ragged history: variable missing at this time
            cur = row
            for seg in path[:-1]:
                cur = cur.setdefault(seg, {})
            cur[path[-1]] = cell_value(tag, spec['cells'][pkey(path)][i])
        data[t] = row
    return data


def same(a, b):
    from pint import Quantity
    if isinstance(a, Quantity) or isinstance(b, Quantity):
        return (isinstance(a, Quantity) and isinstance(b, Quantity)
                and a.units == b.units and a.magnitude == b.magnitude)
    if isinstance(a, dict) and isinstance(b, dict):
        return set(a) == set(b) and all(same(a[k], b[k]) for k in a)
    if isinstance(a, list) and isinstance(b, list):
        return len(a) == len(b) and all(same(x, y) for x, y in zip(a, b))
    if (type(a) in (int, float) and type(b) in (int, float)):
        return a == b       # 3 vs 3.0: pint may read an int magnitude back as float
    return type(a) is type(b) and a == b


def prune(tree):
    """Drop empty dictionaries (branches without emitted leaves)."""
    if isinstance(tree, dict):
        out = {k: prune(v) for k, v in tree.items()}
        return {k: v for k, v in out.items() if v != {} or not isinstance(v, dict)}
    return tree


def get(tree, path):
    cur = tree
    for seg in path:
        if not isinstance(cur, dict) or seg not in cur:
            return KeyError
        cur = cur[seg]
    return cur


def time_vector(res, spec, ts, what):
    """The time vector of a timeseries view: the emitted times, in time order
    when the raw data was in time order; for raw data held in another order
    (merged chunks) only the one-to-one alignment of every series with the
    vector is required.  Returns the vector the cells are aligned with."""
    tv = ts.get('time')
    times = spec['times']
    if spec.get('order') and spec['order'] != sorted(spec['order']):
        if not isinstance(tv, list) or sorted(tv) != sorted(times):
            res.fail(what + '.time', 'time vector %r is not a permutation of '
                     'the emitted times %r' % (tv, times))
            return None
        return tv
    if tv != times:
        res.fail(what + '.time', 'time vector %r != %r' % (tv, times))
        return None
    return times


def check_timeseries(res, spec, data, ts, what):
    """ts: embedded timeseries; compare with data cell by cell and rebuild."""
    times = time_vector(res, spec, ts, what)
    if times is None:
        return
    lp = leaf_paths(spec['shape'])
    n_leaves = 0
    for path, tag in lp:
        if tag.startswith('q:'):
            key = (path[-1], str(unit_of(tag[2:])))
        else:
            key = path[-1]
        col = get(ts, path[:-1] + (key,))
        if col is KeyError or not isinstance(col, list):
            res.fail(what + '.missing', 'no column for %r (key %r): %r'
                     % (path, key, col))
            return
        if len(col) != len(times):
            res.fail(what + '.misaligned', 'column %r has %d entries for %d '
                     'times: %r' % (path, len(col), len(times), col))
            return
        for i, t in enumerate(times):
            want = get(data[t], path)
            if tag.startswith('q:'):
                want = want.magnitude
            if not same(col[i], want):
                res.fail(what + '.cell', '%r at t=%r: %r != %r'
                         % (path, t, col[i], want))
                return
        n_leaves += 1
    # nothing invented
    cols = [p for p, _ in leaf_paths({k: v for k, v in ts.items() if k != 'time'})]
    if len(cols) != n_leaves:
        res.fail(what + '.extra', 'timeseries has columns %r for leaves %r'
                 % (cols, [p for p, _ in lp]))


def check_path_timeseries(res, spec, data, pts, what):
    times = time_vector(res, spec, pts, what)
    if times is None:
        return
    lp = leaf_paths(spec['shape'])
    want_keys = set()
    for path, tag in lp:
        if tag.startswith('q:'):
            key = path[:-1] + ((path[-1], str(unit_of(tag[2:]))),)
        else:
            key = path
        want_keys.add(key)
        col = pts.get(key, KeyError)
        if col is KeyError:
            res.fail(what + '.missing', 'no path column %r in %r' % (key, list(pts)))
            return
        if len(col) != len(times):
            res.fail(what + '.misaligned', '%r: %d entries, %d times'
                     % (key, len(col), len(times)))
            return
        for i, t in enumerate(times):
            want = get(data[t], path)
            if tag.startswith('q:'):
                want = want.magnitude
            if not same(col[i], want):
                res.fail(what + '.cell', '%r at t=%r: %r != %r'
                         % (key, t, col[i], want))
                return
    if set(pts) - {'time'} != want_keys:
        res.fail(what + '.extra', 'path keys %r != %r'
                 % (sorted(map(str, set(pts) - {'time'})),
                    sorted(map(str, want_keys))))


def expected_query(data_t, query):
    """Exactly the queried variables: every leaf of the row that lies at or
    below some queried path, nothing else (order of the query is moot)."""
    out = {}
    qs = [tuple(q) for q in query if q]

    def walk(tree, path):
        for k, v in tree.items():
            p = path + (k,)
            if isinstance(v, dict) and v:
                walk(v, p)
            elif any(p[:len(q)] == q for q in qs):
                cur = out
                for seg in p[:-1]:
                    cur = cur.setdefault(seg, {})
                cur[k] = copy.deepcopy(v)
    walk(data_t, ())
    return out


def classify(spec, res):
    lp = leaf_paths(spec['shape'])
    res.label('mode.' + spec['mode'])
    deep = any(len(p) >= 3 for p, _ in lp)
    hasq = any(t.startswith('q:') for _, t in lp)
    falsy_q = False
    q = spec.get('query')
    if q:
        res.label('query')
        for path, tag in lp:
            if any(tuple(qp) == path[:len(qp)] for qp in q if qp):
                for v in spec['cells'][pkey(path)]:
                    if not v and not tag.startswith('q:'):
                        falsy_q = True
                    if tag.startswith('q:') and v == 0:
                        falsy_q = True
    if falsy_q:
        res.label('query.falsy')
    if spec.get('absent'):
        res.label('ragged')
    if hasq:
        res.label('quantity')
    res.nontrivial = falsy_q or hasq or deep


def run_pure(spec, res):
    from vivarium.core.emitter import (
        timeseries_from_data, path_timeseries_from_data,
        path_timeseries_from_embedded_timeseries)
    data = build_data(spec)
    if spec.get('order') and spec['order'] != sorted(spec['order']):
        res.label('raw_data_not_in_time_order')
    ts = timeseries_from_data(build_data(spec))
    check_timeseries(res, spec, data, ts, 'timeseries_from_data')
    pts = path_timeseries_from_data(build_data(spec))
    check_path_timeseries(res, spec, data, pts, 'path_timeseries_from_data')
    emb = timeseries_from_data(build_data(spec))
    pts2 = path_timeseries_from_embedded_timeseries(emb)
    check_path_timeseries(res, spec, data, pts2, 'path_from_embedded')
    # ... and the embedded timeseries that was converted is still intact
    check_timeseries(res, spec, data, emb, 'embedded_after_conversion')


def check_emitter(res, spec, data, em):
    """data: expected *deserialized* raw data {t: tree}."""
    from vivarium.library.units import remove_units
    raw = em.get_data_deserialized()
    if list(raw) != spec['times']:
        res.fail('emitter.times', '%r != %r' % (list(raw), spec['times']))
        return
    for t in spec['times']:
        if not same(prune(raw[t]), prune(data[t])):
            res.fail('emitter.row', 't=%r: %r != %r' % (t, raw[t], data[t]))
            return
    ragged = bool(spec.get('absent'))
    if not ragged:
        check_timeseries(res, spec, data, em.get_timeseries(), 'get_timeseries')
        check_path_timeseries(res, spec, data, em.get_path_timeseries(),
                              'get_path_timeseries')
    q = spec.get('query')
    if q:
        got = em.get_data_deserialized([tuple(p) for p in q])
        if list(got) != spec['times']:
            res.fail('query.times', '%r' % (list(got),))
            return
        for t in spec['times']:
            want = expected_query(data[t], q)
            if not same(prune(got[t]), prune(want)):
                res.fail('query.row', 'query %r at t=%r: %r, expected %r'
                         % (q, t, got[t], want))
                return
        # timeseries views of a query: only the queried variables, aligned
        qs = [tuple(p) for p in q if p]

        def restrict(shape, path=()):
            out = {}
            for k, v in shape.items():
                pth = path + (k,)
                if isinstance(v, dict):
                    sub = restrict(v, pth)
                    if sub:
                        out[k] = sub
                elif any(pth[:len(x)] == x for x in qs):
                    out[k] = v
            return out
        spec_q = dict(spec, shape=restrict(spec['shape']))
        data_q = {t: expected_query(data[t], q) for t in spec['times']}
        if not ragged:
            check_timeseries(res, spec_q, data_q,
                             em.get_timeseries([tuple(p) for p in q]),
                             'get_timeseries(query)')
            check_path_timeseries(res, spec_q, data_q,
                                  em.get_path_timeseries([tuple(p) for p in q]),
                                  'get_path_timeseries(query)')
        if res.violations:
            return
        gotu = em.get_data_unitless([tuple(p) for p in q])
        for t in spec['times']:
            want = remove_units(expected_query(data[t], q))
            if not same(prune(gotu[t]), prune(want)):
                res.fail('query.unitless', 'at t=%r: %r, expected %r'
                         % (t, gotu[t], want))
                return


def run_emitter(spec, res):
    from vivarium.core.emitter import RAMEmitter
    em = RAMEmitter({})
    em.emit({'table': 'configuration', 'data': {}})
    rows = list(build_data(spec).items())
    for i, (t, row) in enumerate(rows):
        if i == len(rows) - 1 and len(rows) >= 2 and not spec.get('absent'):
            # the views are read once before the history is complete (an
            # analysis between two runs): the later reads must be up to date
            em.get_timeseries()
            em.get_path_timeseries()
            em.get_data_deserialized()
            em.get_data_unitless()
            res.label('views_read_before_last_row')
        em.emit({'table': 'history', 'data': dict(row, time=t)})
    check_emitter(res, spec, build_data(spec), em)


def make_setter(spec):
    from vivarium.core.process import Process
    lp = leaf_paths(spec['shape'])
    times = spec['times']

    class Setter(Process):
        name = 'setter'

        def ports_schema(self):
            schema = {'clock': {'tick': {'_default': 0}}}

            def fill(shape, out, path):
                for k, v in shape.items():
                    if isinstance(v, dict):
                        fill(v, out.setdefault(k, {}), path + (k,))
                    else:
                        out[k] = {
                            '_default': cell_value(
                                v, spec['cells'][pkey(path + (k,))][0]),
                            '_updater': 'set', '_emit': True}
            fill(spec['shape'], schema.setdefault('s', {}), ())
            return schema

        def next_update(self, timestep, states):
            i = states['clock']['tick'] + 1
            upd = {}
            if i < len(times):
                for path, tag in lp:
                    cur = upd
                    for seg in path[:-1]:
                        cur = cur.setdefault(seg, {})
                    cur[path[-1]] = cell_value(tag, spec['cells'][pkey(path)][i])
            return {'clock': {'tick': 1}, 's': upd}
    return Setter()


def run_engine(spec, res):
    from vivarium.core.engine import Engine
    if any(v is None for col in spec['cells'].values() for v in col):
        # Store.emit_data drops leaves that hold None: not an engine history
        spec = dict(spec, cells={k: [0 if v is None else v for v in col]
                                 for k, col in spec['cells'].items()})
    n = len(spec['times'])
    eng = Engine(processes={'setter': make_setter(spec)},
                 topology={'setter': {'clock': ('clock',), 's': ('s',)}},
                 display_info=False)
    if n > 1:
        eng.update(n - 1)
    # engine times are 0..n-1; the spec's times are replaced accordingly
    spec2 = dict(spec, times=[float(i) if i else 0 for i in range(n)])
    spec2['times'] = list(eng.emitter.get_data())
    if len(spec2['times']) != n:
        res.fail('engine.rows', '%d rows for %d ticks' % (len(spec2['times']), n))
        return
    data = {}
    for i, t in enumerate(spec2['times']):
        data[t] = {'s': build_data(spec)[spec['times'][i]]}
    spec2['shape'] = {'s': spec['shape']}
    spec2['cells'] = {'s/' + k: v for k, v in spec['cells'].items()}
    if spec.get('query'):
        spec2['query'] = [['s'] + list(p) for p in spec['query']]
    check_emitter(res, spec2, data, eng.emitter)


def run_case(spec):
    res = Result()
    classify(spec, res)
    try:
        if spec['mode'] == 'pure':
            run_pure(spec, res)
        elif spec['mode'] == 'emitter':
            run_emitter(spec, res)
        else:
            run_engine(spec, res)
    except Exception as e:
        if innermost_is_harness(e):
            raise
        res.violations.append(exc_violation(e))
    return res


# ------------------------------------------------------------------ strategy

TAGS = ['int', 'int', 'float', 'bool', 'str', 'list', 'opt'] + \
    ['q:' + u for u in UNITS]


def shapes(depth):
    leaf = st.sampled_from(TAGS)
    if depth == 0:
        return leaf
    return st.one_of(
        leaf,
        # below the top level a variable or store may itself be called 'time'
        st.dictionaries(st.sampled_from(KEYS + ['time']), shapes(depth - 1),
                        min_size=1, max_size=3))


def values_for(tag):
    if tag == 'int':
        return st.sampled_from([0, 0, 1, -1, 7, 2 ** 40])
    if tag == 'float':
        return st.sampled_from([0.0, 0.5, -2.25, 1e-9, 3.0])
    if tag == 'bool':
        return st.booleans()
    if tag == 'str':
        return st.sampled_from(['', '', 'a', 'xyz', '0'])
    if tag == 'list':
        return st.sampled_from([[], [], [0], [1, 2], ['']])
    if tag == 'opt':
        # a variable that is None at some times (also what a nan float becomes
        # in the RAM emitter)
        return st.sampled_from([None, None, 'size', 3, 0])
    return st.sampled_from([0, 1, 2.5, 0.0, -3])


@st.composite
def strategy_(draw, tier):
    shape = draw(st.dictionaries(st.sampled_from(KEYS), shapes(3), min_size=1,
                                 max_size=3))
    lp = leaf_paths(shape)
    n = draw(st.integers(1, 6))
    mode = draw(st.sampled_from(['pure', 'emitter', 'emitter', 'engine']))
    steps = draw(st.lists(st.sampled_from([0.5, 1.0, 2.0]), min_size=n,
                          max_size=n))
    t0 = draw(st.sampled_from([0, 0.0, 1.5]))
    times, t = [], t0
    for s in steps:
        times.append(t)
        t = t + s
    cells = {}
    for path, tag in lp:
        cells[pkey(path)] = [draw(values_for(tag)) for _ in range(n)]
    query = None
    if mode != 'pure' and draw(st.integers(0, 3)) > 0:
        allnodes = []

        def walk(s, p):
            if p:
                allnodes.append(list(p))
            if isinstance(s, dict):
                for k, v in s.items():
                    walk(v, p + (k,))
        walk(shape, ())
        def cut(path):
            # a query path never descends *through* a leaf (get_in would
            # index into the value): truncate at the first leaf
            out, cur = [], shape
            for seg in path:
                out.append(seg)
                if not isinstance(cur, dict) or seg not in cur:
                    break
                cur = cur[seg]
                if not isinstance(cur, dict):
                    break
            return out
        cand = st.one_of(st.sampled_from(allnodes),
                         st.lists(st.sampled_from(KEYS + ['zz']), min_size=1,
                                  max_size=3).map(cut))
        query = draw(st.lists(cand, min_size=1, max_size=4, unique_by=tuple))
    spec = {'mode': mode, 'shape': shape, 'times': times, 'cells': cells,
            'query': query}
    if mode == 'pure' and n >= 2 and draw(st.integers(0, 2)) == 0:
        # raw data held in another order than time order (merged chunks)
        spec['order'] = list(draw(st.permutations(list(range(n)))))
    if mode == 'emitter' and query and n >= 2 and draw(st.integers(0, 2)) == 0:
        # ragged history (query clause only): some variables are missing at
        # some times, e.g. an agent that divided or died
        absent = {}
        for path, tag in lp:
            if draw(st.booleans()):
                mask = [draw(st.booleans()) for _ in range(n)]
                if any(mask) and not all(mask):
                    absent[pkey(path)] = mask
        if absent:
            spec['absent'] = absent
    return spec


def strategy(tier):
    return strategy_(tier)


SIGNATURES = {}

"""C03  Monotone clock, exact landing, termination, precision grid."""
from hypothesis import strategies as st

from vv import sched, kit
from vv.core import Result

ID = 'C03'
CASES = {'quick': 700, 'thorough': 50000}
HANG_IS_VIOLATION = True
RULE = ('(one case in twelve: processes that each delete their own compartment '
        'after a few invocations, so that a call is left without any process '
        'half-way; every call must land on start + interval) '
        'Hypothesis draws 0..4 scripted processes (empty and all-quiet '
        'composites included) whose timestep and condition answers are scripts '
        'indexed by poll or by invocation (adaptive: may shrink or grow), '
        'precisions None/1/2/5 with timesteps on the grid, an initial global '
        'time and 1..5 run_for/update calls with and without force. '
        'engine.global_time is read in every callback, emit and after every '
        'return: non-decreasing, never beyond the end of the call in progress, '
        '== start+interval at return, on the 10^-p grid; termination is '
        'decided by a deterministic poll budget (20x the bound "one pass per '
        'event time") raised from inside the callback, plus a wall-clock '
        'watchdog for callback-free composites. Non-trivial = an all-quiet '
        'pass, or an adaptive re-poll with a different answer, or an empty '
        'composite, or a precision; distinct = spec hash.')
ASSUMPTIONS = [
    'termination is decided up to an iteration bound (20x the number of '
    'passes a one-pass-per-event scheduler needs), not proved',
]


@st.composite
def vanishing(draw):
    """Every process deletes its own compartment after a few invocations: in
    the middle of some call the composite is left without any process, and
    the calls must still land on start + interval."""
    agents = [{'ts': draw(st.integers(1, 8)) * 0.25,
               'die_after': draw(st.integers(1, 4))}
              for _ in range(draw(st.integers(1, 3)))]
    calls = [{'op': draw(st.sampled_from(['run_for', 'update'])),
              'interval': draw(st.integers(1, 24)) * 0.25,
              'force': draw(st.booleans())}
             for _ in range(draw(st.integers(1, 4)))]
    for c in calls:
        if c['op'] == 'update':
            c['force'] = True
    return {'kind': 'vanish', 'agents': agents, 'calls': calls,
            'step': draw(st.booleans())}


@st.composite
def strategy_(draw, tier):
    if draw(st.integers(0, 11)) == 0:
        return draw(vanishing())
    return draw(sched.sched_specs(quiet=True, adaptive=True, empty_ok=True,
                                  all_quiet_ok=True,
                                  precisions=(None, None, None, 1, 2, 5),
                                  state_cond=True, deep=tier == 'thorough',
                                  decimal_ok=True, big_t0_ok=True))


def strategy(tier):
    return strategy_(tier)


def run_vanish(spec):
    from vivarium.core.engine import Engine
    from vivarium.core.process import Process, Step
    res = Result()
    res.label('kind.vanish')
    seen = []           # global times seen inside callbacks

    class Mortal(Process):
        defaults = {'die_after': 1, 'key': 'a'}

        def __init__(self, parameters=None):
            super().__init__(parameters)
            self.n = 0

        def ports_schema(self):
            return {'x': {'_default': 0, '_emit': True},
                    'agents': {'*': {}}}

        def next_update(self, timestep, states):
            self.n += 1
            if holder.get('engine') is not None:
                seen.append(holder['engine'].global_time)
            if self.n >= self.parameters['die_after']:
                return {'agents': {'_delete': [self.parameters['key']]}}
            return {'x': 1}

    class Watch(Step):
        def ports_schema(self):
            return {'n': {'_default': 0, '_emit': True}}

        def next_update(self, timestep, states):
            if holder.get('engine') is not None:
                seen.append(holder['engine'].global_time)
            return {'n': 1}

    holder = {}
    processes, topology = {'agents': {}}, {'agents': {}}
    for i, a in enumerate(spec['agents']):
        key = 'a%d' % i
        processes['agents'][key] = {'mortal': Mortal({
            'time_step': a['ts'], 'die_after': a['die_after'], 'key': key})}
        topology['agents'][key] = {'mortal': {'x': ('x',),
                                              'agents': ('..',)}}
    kwargs = dict(processes=processes, topology=topology, display_info=False)
    if spec['step']:
        kwargs.update(steps={'watch': Watch()}, flow={'watch': []})
        kwargs['topology']['watch'] = {'n': ('n',)}
    try:
        from vv.core import watchdog
        engine = Engine(**kwargs)
        holder['engine'] = engine
        t = 0
        for i, call in enumerate(spec['calls']):
            if call['op'] == 'update':
                engine.update(call['interval'])
            else:
                engine.run_for(call['interval'], force_complete=call['force'])
            t += call['interval']
            if engine.global_time != t:
                res.fail('landing', 'call %d: %s(%r) returned at global time '
                         '%r, expected %r (processes left: %r)'
                         % (i, call['op'], call['interval'],
                            engine.global_time, t,
                            sorted(engine.process_paths)), 'engine.py:run_for')
                break
        if seen != sorted(seen):
            res.fail('clock.backwards', 'global times seen in callbacks: %r'
                     % (seen,), 'engine.py:run_for')
        if not engine.process_paths:
            res.label('vanish.no_process_left')
            res.nontrivial = True
    except Exception as e:
        from vv.core import innermost_is_harness, exc_violation
        if innermost_is_harness(e):
            raise
        res.violations.append(exc_violation(e))
    return res


def run_case(spec):
    if spec.get('kind') == 'vanish':
        return run_vanish(spec)
    res = Result()
    p = spec['precision']
    ctx, engine, failure = sched.execute(spec)
    try:
        parsed = sched.parse(ctx, spec)
        sched.intervals(spec, parsed, res)
        classify(spec, res, parsed)
        if failure is not None:
            res.violations.append(failure)
        # walk the log
        prev = spec['t0']
        cur_call = None
        emitted = []
        for seq, ev in enumerate(ctx.log):
            kind = ev[0]
            if kind == 'call':
                cur_call = ev
                continue
            t = ev[2]
            if kind == 'return':
                start, interval = cur_call[2], cur_call[3]
                want = sched.rnd(start + interval, p)
                if t != want:
                    res.fail('landing', 'call %d: run_for(%r) from %r returned '
                             'at global time %r, expected %r'
                             % (ev[1], interval, start, t, want),
                             'engine.py:run_for')
                cur_call = None
            if t < prev:
                res.fail('clock.backwards', 'global time %r after %r (event '
                         '%s %s)' % (t, prev, kind, ev[1]), 'engine.py:run_for')
                break
            prev = t
            if cur_call is not None and kind != 'return':
                end = sched.rnd(cur_call[2] + cur_call[3], p)
                if t > end:
                    res.fail('clock.overshoot', 'global time %r beyond the end '
                             '%r of the call in progress (event %s %s)'
                             % (t, end, kind, ev[1]), 'engine.py:run_for')
                    break
            if p is not None and round(t, p) != t:
                res.fail('grid', 'time %r is not on the 10^-%d grid (event %s)'
                         % (t, p, kind), 'engine.py:run_for')
                break
            if kind == 'emit' and ev[1] == 'history':
                T = ev[3].get('time')
                if T != t:
                    res.fail('emit.time', 'row time %r emitted at global time %r'
                             % (T, t))
                emitted.append(T)
        if p is not None:
            for a, b in zip(emitted, emitted[1:]):
                if a != b and abs(a - b) < 10 ** -p / 2:
                    res.fail('grid', 'emit times %r and %r are distinct but '
                             'closer than the grid' % (a, b))
                    break
        for a, b in zip(emitted, emitted[1:]):
            if b < a:
                res.fail('emit.backwards', 'row time %r after %r' % (b, a),
                         'engine.py:run_for')
                break
    finally:
        ctx.close()
    return res


def classify(spec, res, parsed):
    if not spec['procs']:
        res.label('empty')
    if spec['precision'] is not None:
        res.label('precision.%d' % spec['precision'])
    # all-quiet pass: a poll time at which every process polled answered False
    by_t = {}
    for name, polls in parsed['polls'].items():
        for rec in polls:
            by_t.setdefault((rec.call, rec.t), []).append(rec)
    nprocs = len(spec['procs'])
    if any(len(v) >= nprocs and all(r.cond is False for r in v)
           for v in by_t.values()) and nprocs:
        res.label('all_quiet_pass')
    adaptive = False
    for name, polls in parsed['polls'].items():
        for a, b in zip(polls, polls[1:]):
            if a.token is None and a.cond is None and b.tau != a.tau:
                adaptive = True
    if adaptive:
        res.label('adaptive_repoll')
    res.nontrivial = bool(res.labels & {
        'empty', 'all_quiet_pass', 'adaptive_repoll'}) or \
        spec['precision'] is not None


def sig_repoll_past(spec, v, res):
    return ('sched.repoll_past' in res.labels and v.kind in (
        'clock.backwards', 'emit.backwards', 'landing', 'clock.overshoot',
        'exception:ValueError', 'nontermination'))


SIGNATURES = {'repoll_past': sig_repoll_past}

"""C03  Monotone clock, exact landing, termination, precision grid."""
from hypothesis import strategies as st

from vv import sched, kit
from vv.core import Result

ID = 'C03'
CASES = {'quick': 700, 'thorough': 50000}
HANG_IS_VIOLATION = True
RULE = ('Hypothesis draws 0..4 scripted processes (empty and all-quiet '
        'composites included) whose timestep and condition answers are scripts '
        'indexed by poll or by invocation (adaptive: may shrink or grow), '
        'precisions None/1/2/5 with timesteps on the grid, an initial global '
        'time and 1..5 run_for/update calls with and without force. '
        'engine.global_time is read in every callback, emit and after every '
        'return: non-decreasing, never beyond the end of the call in progress, '
        '== start+interval at return, on the 10^-p grid; termination is '
        'decided by a deterministic poll budget (20x the bound "one pass per '
        'event time") raised from inside the callback, plus a wall-clock '
        'watchdog for callback-free composites. Non-trivial = an all-quiet '
        'pass, or an adaptive re-poll with a different answer, or an empty '
        'composite, or a precision; distinct = spec hash.')
ASSUMPTIONS = [
    'termination is decided up to an iteration bound (20x the number of '
    'passes a one-pass-per-event scheduler needs), not proved',
]


def strategy(tier):
    return sched.sched_specs(quiet=True, adaptive=True, empty_ok=True,
                             all_quiet_ok=True,
                             precisions=(None, None, None, 1, 2, 5),
                             state_cond=True, deep=tier == 'thorough')


def run_case(spec):
    res = Result()
    p = spec['precision']
    ctx, engine, failure = sched.execute(spec)
    try:
        parsed = sched.parse(ctx, spec)
        sched.intervals(spec, parsed, res)
        classify(spec, res, parsed)
        if failure is not None:
            res.violations.append(failure)
        # walk the log
        prev = spec['t0']
        cur_call = None
        emitted = []
        for seq, ev in enumerate(ctx.log):
            kind = ev[0]
            if kind == 'call':
                cur_call = ev
                continue
            t = ev[2]
            if kind == 'return':
                start, interval = cur_call[2], cur_call[3]
                want = sched.rnd(start + interval, p)
                if t != want:
                    res.fail('landing', 'call %d: run_for(%r) from %r returned '
                             'at global time %r, expected %r'
                             % (ev[1], interval, start, t, want),
                             'engine.py:run_for')
                cur_call = None
            if t < prev:
                res.fail('clock.backwards', 'global time %r after %r (event '
                         '%s %s)' % (t, prev, kind, ev[1]), 'engine.py:run_for')
                break
            prev = t
            if cur_call is not None and kind != 'return':
                end = sched.rnd(cur_call[2] + cur_call[3], p)
                if t > end:
                    res.fail('clock.overshoot', 'global time %r beyond the end '
                             '%r of the call in progress (event %s %s)'
                             % (t, end, kind, ev[1]), 'engine.py:run_for')
                    break
            if p is not None and round(t, p) != t:
                res.fail('grid', 'time %r is not on the 10^-%d grid (event %s)'
                         % (t, p, kind), 'engine.py:run_for')
                break
            if kind == 'emit' and ev[1] == 'history':
                T = ev[3].get('time')
                if T != t:
                    res.fail('emit.time', 'row time %r emitted at global time %r'
                             % (T, t))
                emitted.append(T)
        if p is not None:
            for a, b in zip(emitted, emitted[1:]):
                if a != b and abs(a - b) < 10 ** -p / 2:
                    res.fail('grid', 'emit times %r and %r are distinct but '
                             'closer than the grid' % (a, b))
                    break
        for a, b in zip(emitted, emitted[1:]):
            if b < a:
                res.fail('emit.backwards', 'row time %r after %r' % (b, a),
                         'engine.py:run_for')
                break
    finally:
        ctx.close()
    return res


def classify(spec, res, parsed):
    if not spec['procs']:
        res.label('empty')
    if spec['precision'] is not None:
        res.label('precision.%d' % spec['precision'])
    # all-quiet pass: a poll time at which every process polled answered False
    by_t = {}
    for name, polls in parsed['polls'].items():
        for rec in polls:
            by_t.setdefault((rec.call, rec.t), []).append(rec)
    nprocs = len(spec['procs'])
    if any(len(v) >= nprocs and all(r.cond is False for r in v)
           for v in by_t.values()) and nprocs:
        res.label('all_quiet_pass')
    adaptive = False
    for name, polls in parsed['polls'].items():
        for a, b in zip(polls, polls[1:]):
            if a.token is None and a.cond is None and b.tau != a.tau:
                adaptive = True
    if adaptive:
        res.label('adaptive_repoll')
    res.nontrivial = bool(res.labels & {
        'empty', 'all_quiet_pass', 'adaptive_repoll'}) or \
        spec['precision'] is not None


def sig_repoll_past(spec, v, res):
    return ('sched.repoll_past' in res.labels and v.kind in (
        'clock.backwards', 'emit.backwards', 'landing', 'clock.overshoot',
        'exception:ValueError', 'nontermination'))


SIGNATURES = {'repoll_past': sig_repoll_past}

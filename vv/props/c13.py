"""C13  Parallel processes are transparent and always shut down cleanly.

Kinds: {'kind': 'sched', ...sched spec..., 'parallel': [names], 'shutdown': plan}
       {'kind': 'struct', ...history spec..., 'parallel': [...], 'shutdown': plan}
Oracle: differential (serial build == parallel build of the same spec) plus
shutdown invariants on the worker OS processes.
"""
import copy
import gc
import multiprocessing
import time

from hypothesis import strategies as st

from vv import kit, sched, struct
from vv.core import Result, exc_violation, innermost_is_harness, Violation
from vv.util import deq

ID = 'C13'
CASES = {'quick': 100, 'thorough': 2500}
SHARDS = {'quick': 8, 'thorough': 16}
HANG_IS_VIOLATION = True
CASE_TIMEOUT = 20
RULE = ('Specs from the scheduler generator (1..3 processes with different '
        'timesteps and condition scripts, 0..2 steps, chunked forced/unforced '
        'calls) and from the structural-history generator (compartments with '
        'resident processes of timestep 0.5/1/1.5/2 that are deleted, moved, '
        'generated or divided away while idle, due in the same batch or with '
        'an update in flight); a drawn non-empty subset of processes/steps is '
        'marked _parallel; a drawn shutdown plan: end() once, end() twice, '
        'end() after an unforced run_for with commands pending, or never '
        '(engine dropped and garbage-collected). Every spec is built twice, '
        'serial and parallel, with state-dependent deterministic updates. '
        'Oracle: identical emitted trajectories, final values and published '
        'composite shape; no exception (in particular no "still pending" '
        'RuntimeError); end() returns; afterwards no worker OS process of the '
        'engine is alive; workers of deleted processes are gone right after '
        'the deleting batch. Non-trivial = a parallel process with a timestep '
        'different from another process, or a structural op on a parallel '
        'compartment, or a non-standard shutdown plan; distinct = spec hash.')
ASSUMPTIONS = [
    'the harness owns the schedule: workers answer synchronously; crashes or '
    'signals inside a worker are outside this technique',
    'division by copying a mother that holds a ParallelProcess is not '
    'generated (a process handle cannot be deep-copied)',
]

_PRELOADED = [False]


def preload():
    if not _PRELOADED[0]:
        try:
            multiprocessing.set_forkserver_preload(['vivarium', 'vv.kit'])
        except Exception:
            pass
        _PRELOADED[0] = True


@st.composite
def strategy_(draw, tier):
    shutdown = draw(st.sampled_from(['end_once', 'end_once', 'end_twice',
                                     'end_pending', 'never']))
    if draw(st.integers(0, 2)) > 0:
        spec = draw(sched.sched_specs(quiet=True, adaptive=False,
                                      precisions=(None,), max_procs=3))
        spec['calls'] = spec['calls'][:3]
        for c in spec['calls']:
            c['interval'] = min(c['interval'], 4.0)
        names = [p['name'] for p in spec['procs']] + \
            ['s%d' % i for i in range(spec['steps'])]
        par = draw(st.lists(st.sampled_from(names), min_size=1,
                            max_size=len(names), unique=True))
        spec.update(kind='sched', parallel=sorted(par), shutdown=shutdown)
        # a schema override naming one process (often a parallel one) must
        # reach it however it is run
        if draw(st.booleans()):
            spec['override'] = draw(st.sampled_from(
                [p['name'] for p in spec['procs']]))
        # steps written the old way (a Process subclass overriding is_step)
        spec['legacy_steps'] = draw(st.integers(0, 2)) == 0
        if shutdown == 'end_pending':
            spec['calls'][-1]['op'] = 'run_for'
            spec['calls'][-1]['force'] = False
        return spec
    spec = draw(struct.histories(viewers=False, residents=True, inc_ok=True,
                                 replace_ok=True,
                                 max_ticks=4, step_op_ok=True))
    # resident flow steps may be parallel too (they share a layer with a step
    # operator)
    all_res = list(spec['residents'].values()) + [
        op['resident'] for b in spec['ticks'] for op in b if op.get('resident')]
    if not spec['op_is_step'] and draw(st.booleans()):
        # step operators are the interesting case for parallel steps
        spec['op_is_step'] = True
        for res_ in all_res:
            if res_['ts'] not in (1.0, 2.0):
                res_['ts'] = 1.0
    for res_ in all_res:
        if res_.get('step') and draw(st.integers(0, 3)) > 0:
            res_['parallel_step'] = True
    # parallel residents: initial ones by key, generated ones by flag
    par = []
    for key in sorted(spec['residents']):
        if draw(st.booleans()):
            par.append(key)
    for b in spec['ticks']:
        for op in b:
            if op.get('resident') and draw(st.booleans()):
                op['resident']['parallel'] = True
                par.append('gen:' + (op.get('key') or op.get('mother')))
                # a parallel process born mid-run, with a long timestep: its
                # update is in flight when the next batches change structure
                if draw(st.integers(0, 2)) > 0:
                    op['resident']['ts'] = 2.0 if spec['op_is_step'] else \
                        draw(st.sampled_from([1.5, 2.0]))
    if not par and spec['residents']:
        par.append(sorted(spec['residents'])[0])
    # a mother holding a ParallelProcess cannot be divided by copying
    holders = {k.split('/')[1] for k in par if '/' in k}
    for b in spec['ticks']:
        for op in b:
            if op.get('resident') and op['resident'].get('parallel'):
                holders.add(op.get('key'))
                holders.update(op.get('daughters', []))
            if op['op'] == 'divide' and not op['explicit'] and \
                    op['mother'] in holders:
                op['explicit'] = True
    if draw(st.booleans()):
        # the whole history in one call: nothing is drained at call boundaries
        spec['chunks'] = [sum(spec['chunks'])]
    spec.update(kind='struct', parallel=par, shutdown=shutdown)
    return spec


def strategy(tier):
    return strategy_(tier)


# ------------------------------------------------------------------ running

def describe_parts(x):
    from vivarium.core.process import Process
    if isinstance(x, Process):
        return 'proc:' + x.name
    if isinstance(x, dict):
        return {k: describe_parts(v) for k, v in x.items()}
    if isinstance(x, (list, tuple)):
        return [describe_parts(v) for v in x]
    return x


def norm(x):
    if x is None:
        return {}
    if isinstance(x, dict):
        out = {k: norm(v) for k, v in x.items()}
        return {k: v for k, v in out.items() if v != {}}
    return x


def workers_of(engine):
    """multiprocessing.Process handles of the engine's ParallelProcesses."""
    from vivarium.core.process import ParallelProcess
    out = []

    def walk(store):
        for child in store.inner.values():
            if isinstance(child.value, ParallelProcess):
                out.append(child.value)
            else:
                walk(child)
    walk(engine.state)
    return out


def alive(pp):
    try:
        return pp.multiprocess.is_alive()
    except ValueError:          # closed handle
        return False


def build_sched(spec, ctx, parallel):
    processes, topology, steps, flow = {}, {}, {}, {}
    for i, p in enumerate(spec['procs']):
        params = {'name': p['name'], 'run_id': ctx.run_id, 'ts': list(p['ts']),
                  'ts_mode': p['ts_mode'], 'cond': p['cond'], 'meta': True,
                  'salt': i + 1, 'record': False, 'setlast': True}
        if parallel and p['name'] in spec['parallel']:
            params['_parallel'] = True
        if spec.get('override') == p['name']:
            params['_schema'] = {'own': {'acc': {'_default': 1000,
                                                  '_emit': True}}}
        processes[p['name']] = kit.RecProcess(params)
        topology[p['name']] = {'own': ('own', p['name']),
                               'shared': ('shared',)}
    for i in range(spec['steps']):
        name = 's%d' % i
        params = {'name': name, 'run_id': ctx.run_id, 'meta': True,
                  'salt': i + 1, 'record': False}
        if parallel and name in spec['parallel']:
            params['_parallel'] = True
        cls = kit.RecStepLegacy if spec.get('legacy_steps') else kit.RecStep
        steps[name] = cls(params)
        flow[name] = []
        topology[name] = {'own': ('own', name), 'shared': ('shared',),
                          'layer': ('layer',)}
    kwargs = dict(processes=processes, topology=topology, display_info=False,
                  emitter=kit.emitter_config(ctx),
                  initial_global_time=spec['t0'])
    if steps:
        kwargs.update(steps=steps, flow=flow)
    return kwargs


def run_once(spec, parallel, res):
    """-> dict(rows, final, published) ; records violations of the parallel
    run in res."""
    from vivarium.core.engine import Engine
    ctx = kit.Context(t0=spec.get('t0', 0), budget=20000)
    out = {}
    engine = None
    before = w = handles = pp = None
    try:
        if spec['kind'] == 'sched':
            engine = Engine(**build_sched(spec, ctx, parallel))
            ctx.engine = engine
            for call in spec['calls']:
                if call['op'] == 'update':
                    engine.update(call['interval'])
                else:
                    engine.run_for(call['interval'],
                                   force_complete=call['force'])
        else:
            s2 = copy.deepcopy(spec)
            if not parallel:
                for b in s2['ticks']:
                    for op in b:
                        if op.get('resident'):
                            op['resident'].pop('parallel', None)
            names = [k for k in spec['parallel'] if '/' in k] if parallel else []
            engine = Engine(**struct.build(s2, ctx, parallel_names=names))
            ctx.engine = engine
            n = len(spec['ticks'])
            for t, c in enumerate(spec.get('chunks') or [1] * (n + 1)):
                before = workers_of(engine) if parallel else []
                if spec['shutdown'] == 'end_pending':
                    engine.run_for(float(c), force_complete=False)
                else:
                    engine.update(float(c))
                if parallel:
                    still = {id(w) for w in workers_of(engine)}
                    for w in before:
                        if id(w) not in still and alive(w):
                            w.multiprocess.join(2.0)
                            if alive(w):
                                res.fail('worker.not_reaped', 'after batch %d '
                                         'the worker of a deleted parallel '
                                         'process (%s) is still alive'
                                         % (t, w.name), 'store.py:_delete_path')
        out['rows'] = [r['data'] for r in engine.emitter.rows
                       if r.get('table') == 'history']
        out['final'] = struct.strip(kit.plain_state(engine.state.get_value()))
        out['published'] = {
            'processes': norm(describe_parts(engine.processes)),
            'steps': norm(describe_parts(engine.steps)),
            'flow': norm(describe_parts(engine.flow)),
            'topology': norm(describe_parts(engine.topology))}
        if parallel:
            check_wrappers(engine, res)
            handles = published_wrappers(engine)
            shutdown(spec, engine, res)
            if spec['shutdown'] != 'never':
                # every worker the engine knows was told to stop and reaped
                for pp in handles:
                    if alive(pp):
                        pp.multiprocess.join(2.0)
                    if alive(pp):
                        res.fail('worker.not_ended', 'Engine.end() returned but '
                                 'the worker of %s is still alive' % pp.name,
                                 'engine.py:end')
                        break
            handles = pp = None
            engine = None
    finally:
        ctx.close()
        if engine is not None and parallel:
            # an exception (or the watchdog) got us here: do not risk a
            # second hang in Engine.end(), stop the workers directly
            kill_children()
        engine = before = w = handles = pp = None
        if parallel:
            gc.collect()        # the dropped engine's cycles (plan 'never')
            reap(res, report=not res.violations and 'rows' in out)
    return out


def published_wrappers(engine):
    from vivarium.core.process import ParallelProcess
    out = []

    def walk(x):
        if isinstance(x, dict):
            for v in x.values():
                walk(v)
        elif isinstance(x, ParallelProcess):
            out.append(x)
    walk(engine.processes)
    walk(engine.steps)
    return out


def check_wrappers(engine, res):
    """The hierarchy holds the very ParallelProcess wrappers the engine
    publishes (also for processes added by structural updates)."""
    from vivarium.core.process import Process, ParallelProcess

    def walk(pub, store, path):
        if isinstance(pub, dict):
            for k, v in pub.items():
                child = store.inner.get(k) if store is not None else None
                walk(v, child, path + (k,))
        elif isinstance(pub, Process):
            held = store.value if store is not None else None
            if held is not pub:
                res.fail('wrapper.mismatch', 'engine publishes %r at %r but the '
                         'hierarchy holds %r' % (pub, path, held),
                         'engine.py:apply_update')
            elif pub.parallel and not isinstance(pub, ParallelProcess):
                res.fail('wrapper.missing', 'parallel process at %r is not '
                         'wrapped' % (path,), 'engine.py:apply_update')
    walk(engine.processes, engine.state, ())
    walk(engine.steps, engine.state, ())


def shutdown(spec, engine, res):
    plan = spec['shutdown']
    t0 = time.time()
    if plan in ('end_once', 'end_pending'):
        engine.end()
    elif plan == 'end_twice':
        engine.end()
        engine.end()
    else:
        pass        # never: dropped below
    del engine
    gc.collect()


def reap(res, report):
    deadline = time.time() + 3.0
    kids = multiprocessing.active_children()
    while kids and time.time() < deadline:
        time.sleep(0.05)
        kids = multiprocessing.active_children()
    if kids and report:
        res.fail('worker.leaked', '%d worker OS process(es) still alive after '
                 'shutdown' % len(kids), 'process.py:end')
    for k in kids:
        try:
            k.terminate()
            k.join(1.0)
        except Exception:
            pass


def run_case(spec):
    preload()
    res = Result()
    res.label('kind.' + spec['kind'], 'shutdown.' + spec['shutdown'])
    try:
        serial = run_once(spec, False, res)
        try:
            par = run_once(spec, True, res)
        except Exception as e:
            if innermost_is_harness(e):
                raise
            v = exc_violation(e)
            v.kind = 'parallel.' + v.kind
            res.violations.append(v)
            reap(res, report=False)
            classify(spec, res)
            return res
        classify(spec, res)
        if res.violations:
            return res
        if len(serial['rows']) != len(par['rows']):
            res.fail('trajectory.rows', 'serial run emitted %d rows, parallel '
                     'run %d' % (len(serial['rows']), len(par['rows'])))
            return res
        for a, b in zip(serial['rows'], par['rows']):
            d = deq(struct.strip(a), struct.strip(b))
            if d:
                res.fail('trajectory', 'at time %r the parallel run differs '
                         'from the serial run: %s (parallel: %r)'
                         % (a.get('time'), d, spec['parallel']),
                         'process.py:ParallelProcess')
                return res
        d = deq(serial['final'], par['final'])
        if d:
            res.fail('final_state', d)
        d = deq(serial['published'], par['published'])
        if d:
            res.fail('published', 'published composite differs: %s' % d,
                     'engine.py:apply_update')
    except Exception as e:
        if innermost_is_harness(e):
            raise
        res.violations.append(exc_violation(e))
        reap(res, report=False)
    return res


def classify(spec, res):
    nt = spec['shutdown'] not in ('end_once',)
    if spec['kind'] == 'sched':
        taus = {t for p in spec['procs'] for t in p['ts']}
        if len(taus) >= 2 and any(n.startswith('p') for n in spec['parallel']):
            nt = True
            res.label('parallel.multi_timestep')
    else:
        holders = {k.split('/')[1] for k in spec['parallel'] if '/' in k}
        for b in spec['ticks']:
            for op in b:
                if op.get('resident') and op['resident'].get('parallel'):
                    holders.add(op.get('key'))
                    holders.update(op.get('daughters', []))
        for b in spec['ticks']:
            for op in b:
                key = op.get('key') or op.get('mother')
                if op['op'] in ('delete', 'move', 'divide') and key in holders:
                    nt = True
                    res.label('struct_on_parallel.' + op['op'])
    res.nontrivial = nt


def kill_children():
    for k in multiprocessing.active_children():
        try:
            k.terminate()
            k.join(1.0)
        except Exception:
            pass


def shard_teardown():
    kill_children()


SIGNATURES = {}

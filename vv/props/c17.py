"""C17  Hierarchy paths obey a consistent path algebra.

Spec kinds (plain data; trees are nested dicts with int leaves):
  {'kind': 'nav', 'tree': T, 'start': [...], 'path': [...]}      Store navigation
  {'kind': 'pairs', 'tree': T}                                   path_to / path_for, all pairs
  {'kind': 'establish', 'tree': T, 'start': [...], 'path': [...]}
  {'kind': 'dict', 'tree': T, 'path': [...], 'value': V}         dict-path helpers
Oracle: vv.ref.paths (lexical, imports nothing from vivarium).
"""
import copy
import itertools

from hypothesis import strategies as st

from vv.core import Result, exc_violation, innermost_is_harness
from vv.ref import paths as ref

ID = 'C17'
CASES = {'quick': 1500, 'thorough': 50000}
FUZZ_RUNS = 40000        # thorough tier: atheris workers, -runs per worker
RULE = ('(1) Exhaustive slice: every dict tree of depth <=2 over {a,b} (25 '
        'trees; thorough: also the 729 trees over {a,b,c}), every start node, '
        'every path of length <=4 (thorough slice: <=3) over {a,b,c,..}: Store '
        'navigation vs lexical normal form, _establish_path, and all node '
        'pairs for path_to/path_for; dict helpers over every path of length '
        '<=3 over {a,b,c}. (2) Hypothesis: trees of depth <=4 over {a,b,c}, '
        'paths of length <=6 (half of them guided walks so that most are '
        'defined). Non-trivial = a defined walk containing "..", a pair of '
        'distinct nodes, a dict path that is nested >=2 or crosses a missing '
        'key, an establish that creates a node; distinct = spec hash.')
ASSUMPTIONS = [
    'walk "defined" = every prefix of the walk exists (Store.get_path raises '
    'otherwise, even if a later ".." would cancel the missing segment)',
    'dict-helper paths never descend through a non-dict leaf (get_in/assoc_path '
    'raise there); update_in may create missing keys (as empty dictionaries) '
    'in its input but must leave every existing entry of it alone',
]

KEYS = ['a', 'b', 'c']


def same_but_empty_dicts(got, want):
    """got == want except for additional keys holding (nested) empty dicts."""
    if isinstance(want, dict):
        if not isinstance(got, dict):
            return False
        for k, v in want.items():
            if k not in got or not same_but_empty_dicts(got[k], v):
                return False
        return all(k in want or only_empty(v) for k, v in got.items())
    return type(got) == type(want) and got == want


def only_empty(x):
    return isinstance(x, dict) and all(only_empty(v) for v in x.values())


# ----------------------------------------------------------------- builders

from vivarium.core.process import Process as _Process


class _Proc(_Process):
    name = 'p'

    def ports_schema(self):
        return {}

    def next_update(self, timestep, states):
        return {}


def build_store(tree):
    from vivarium.core.store import Store

    def config(t):
        if isinstance(t, dict):
            return {k: config(v) for k, v in t.items()}
        if t == '<proc>':
            return {'_value': _Proc({}), '_updater': 'set', '_topology': {},
                    '_serializer': 'process'}
        return {'_default': t, '_value': t}
    if not isinstance(tree, dict):
        raise ValueError('root must be a branch')
    return Store(config(tree))


def node_at(store, path):
    cur = store
    for seg in path:
        cur = cur.inner[seg]
    return cur


def all_store_nodes(store, path=()):
    yield path, store
    for k, child in store.inner.items():
        yield from all_store_nodes(child, path + (k,))


# ----------------------------------------------------------------- laws

def law_nav(res, tree, store, start, path):
    from vivarium.library.topology import normalize_path
    start, path = tuple(start), tuple(path)
    a = node_at(store, start)
    reached = ref.walk_defined(tree, start, path)
    if reached is None:
        res.label('nav.undefined')
        try:
            got = a.get_path(path)
        except Exception:
            return
        # not required to raise; but if it returns a node, that node must at
        # least be the lexically predicted one when that exists
        return
    res.label('nav.defined')
    if '..' in path:
        res.label('nav.dotdot')
        res.nontrivial = True
    from vivarium.core.process import Process
    if isinstance(a.value, Process):
        res.label('nav.from_process_node')
    want_abs = ref.normalize(start + path)
    if want_abs != reached:
        raise AssertionError('reference disagrees with itself')
    got = a.get_path(path)
    want = node_at(store, want_abs)
    if got is not want:
        res.fail('get_path', 'from %r path %r reached %r, lexical %r'
                 % (start, path, got.path_for() if got is not None else None,
                    want_abs))
    # the store API (node[path]) resolves a path like get_path
    try:
        via_api = a[path] if path else a
    except Exception as e:
        via_api = e
    if via_api is not want:
        res.fail('getitem', 'from %r, node[%r] gave %r, get_path reaches %r'
                 % (start, path, via_api.path_for() if hasattr(
                     via_api, 'path_for') else via_api, want_abs))
    n = normalize_path(start + path)
    if n != want_abs:
        res.fail('normalize_path', 'normalize_path(%r) = %r, lexical %r'
                 % (start + path, n, want_abs))
    else:
        via_root = store.get_path(n)
        if via_root is not want:
            res.fail('get_path', 'root.get_path(%r) is not the walked node' % (n,))
    if a.path_for() != start:
        res.fail('path_for', '%r.path_for() = %r' % (start, a.path_for()))


def law_pairs(res, tree, store):
    nodes = list(all_store_nodes(store))
    if len(nodes) > 1:
        res.nontrivial = True
    for pa, a in nodes:
        if a.path_for() != pa:
            res.fail('path_for', 'node at %r reports %r' % (pa, a.path_for()))
            return
        if store.get_path(a.path_for()) is not a:
            res.fail('path_for', 'root.get_path(path_for) is not node %r' % (pa,))
            return
        if a.top() is not store:
            res.fail('top', 'top() of %r is not the root' % (pa,))
            return
        for pb, b in nodes:
            rel = a.path_to(b)
            try:
                got = a.get_path(rel)
            except Exception as e:
                res.fail('path_to', 'from %r to %r: path_to=%r raised %r'
                         % (pa, pb, rel, e))
                return
            if got is not b:
                res.fail('path_to', 'from %r to %r: path_to=%r reaches %r'
                         % (pa, pb, rel, got.path_for()))
                return


def law_establish(res, tree, start, path):
    start, path = tuple(start), tuple(path)
    want_abs = ref.normalize(start + path)
    # precondition: the walk never leaves the root at any prefix
    cur = list(start)
    for seg in path:
        if seg == '..':
            if not cur:
                res.label('establish.above_root')
                res.rejected = True
                return
            cur.pop()
        else:
            cur.append(seg)
            # never descend through an existing leaf
            if not isinstance(ref.lookup(tree, tuple(cur[:-1])), dict) and \
                    ref.lookup(tree, tuple(cur[:-1])) is not ref.MISSING:
                res.label('establish.through_leaf')
                res.rejected = True
                return
    store = build_store(tree)
    before = dict(all_store_nodes(store))
    a = node_at(store, start)
    got = a._establish_path(path, {})
    after = dict(all_store_nodes(store))
    if got.path_for() != want_abs:
        res.fail('establish', 'from %r path %r returned node at %r, lexical %r'
                 % (start, path, got.path_for(), want_abs))
        return
    if after.get(want_abs) is not got:
        res.fail('establish', 'returned node is not the one stored at %r'
                 % (want_abs,))
    for p, node in before.items():
        if after.get(p) is not node:
            res.fail('establish', 'existing node %r lost its identity' % (p,))
            return
    created = set(after) - set(before)
    if created:
        res.label('establish.creates')
        if '..' in path:
            res.nontrivial = True
    prefixes = {want_abs[:i] for i in range(len(want_abs) + 1)}
    if not prefixes <= set(after):
        res.fail('establish', 'prefixes of %r missing' % (want_abs,))
    if created - prefixes:
        res.label('establish.side_nodes')   # tolerated, counted


def law_dict(res, tree, path, value):
    from vivarium.library.topology import (
        get_in, assoc_path, delete_in, update_in, paths_to_dict,
        dict_to_paths)
    from vivarium.core.store import hierarchy_depth
    from vivarium.core.process import assoc_in
    path = tuple(path)
    if ref.through_leaf(tree, path):
        res.label('dict.through_leaf')
        res.rejected = True
        return
    existing = ref.lookup(tree, path)
    if existing is ref.MISSING:
        res.label('dict.missing_key')
    if len(path) >= 2 or existing is ref.MISSING:
        res.nontrivial = True
    # get_in on the original
    want = None if existing is ref.MISSING else existing
    if get_in(copy.deepcopy(tree), path) != want:
        res.fail('get_in', 'get_in(%r,%r) = %r, expected %r'
                 % (tree, path, get_in(copy.deepcopy(tree), path), want))
    sentinel = 'DEFAULT'
    want_d = sentinel if existing is ref.MISSING else existing
    if get_in(copy.deepcopy(tree), path, sentinel) != want_d:
        res.fail('get_in', 'default handling at %r' % (path,))
    if path:
        # assoc_path writes exactly there
        d = copy.deepcopy(tree)
        out = assoc_path(d, path, copy.deepcopy(value))
        expect = ref.assoc(tree, path, value)
        if out is not d:
            res.fail('assoc_path', 'does not return its (mutated) input')
        if d != expect:
            res.fail('assoc_path', 'assoc_path(%r,%r,%r) -> %r, expected %r'
                     % (tree, path, value, d, expect))
        if get_in(d, path) != value:
            res.fail('get_in/assoc_path', 'read back %r, wrote %r'
                     % (get_in(d, path), value))
        # assoc_in: pure, agrees with assoc_path
        d2 = copy.deepcopy(tree)
        out2 = assoc_in(d2, path, copy.deepcopy(value))
        if d2 != tree:
            res.fail('assoc_in', 'input modified: %r -> %r' % (tree, d2))
        if out2 != expect:
            res.fail('assoc_in', 'assoc_in(%r,%r,%r) -> %r, expected %r'
                     % (tree, path, value, out2, expect))
        # delete_in removes exactly that entry
        d3 = copy.deepcopy(d)          # tree with the value written
        delete_in(d3, path)
        expect3 = ref.delete(expect, path)
        if d3 != expect3:
            res.fail('delete_in', 'delete_in(%r,%r) -> %r, expected %r'
                     % (expect, path, d3, expect3))
        d4 = copy.deepcopy(tree)
        delete_in(d4, path)
        if d4 != ref.delete(tree, path):
            res.fail('delete_in', 'delete_in(%r,%r) -> %r, expected %r'
                     % (tree, path, d4, ref.delete(tree, path)))
    # update_in: only the addressed subtree differs in the RETURNED dict
    d5 = copy.deepcopy(tree)
    base = {} if existing is ref.MISSING else existing
    out5 = update_in(d5, path, lambda sub: {'wrapped': copy.deepcopy(sub)})
    expect5 = ref.assoc(tree, path, {'wrapped': base})
    if out5 != expect5:
        res.fail('update_in', 'update_in(%r,%r,f) -> %r, expected %r'
                 % (tree, path, out5, expect5))
    # ... and the dictionary handed in keeps every entry it had (update_in
    # may create missing keys as empty dictionaries along the path, no more)
    if not same_but_empty_dicts(d5, tree):
        res.fail('update_in.input', 'update_in(%r,%r,f) changed its input to '
                 '%r' % (tree, path, d5))
    # enumerations of leaves are mutually inverse
    lv = ref.leaves(tree)
    dp = dict_to_paths((), copy.deepcopy(tree))
    if dp != lv:
        res.fail('dict_to_paths', '%r != reference %r' % (dp, lv))
    if hierarchy_depth(copy.deepcopy(tree)) != dict(lv):
        res.fail('hierarchy_depth', '%r != reference %r'
                 % (hierarchy_depth(copy.deepcopy(tree)), dict(lv)))
    if paths_to_dict(dp) != tree:
        res.fail('paths_to_dict', 'round trip of %r gives %r'
                 % (tree, paths_to_dict(dp)))
    rooted = dict_to_paths(path, copy.deepcopy(tree))
    if rooted != [(path + p, v) for p, v in lv]:
        res.fail('dict_to_paths', 'root prefix %r not applied' % (path,))


# ----------------------------------------------------------------- run_case

def run_case(spec, store=None):
    res = Result()
    kind = spec['kind']
    res.label('kind.' + kind)
    tree = spec['tree']
    try:
        if kind == 'nav':
            law_nav(res, tree, store or build_store(tree),
                    spec['start'], spec['path'])
        elif kind == 'pairs':
            law_pairs(res, tree, store or build_store(tree))
        elif kind == 'establish':
            law_establish(res, tree, spec['start'], spec['path'])
        elif kind == 'dict':
            law_dict(res, tree, spec['path'], spec['value'])
        else:
            raise ValueError(kind)
    except Exception as e:
        if innermost_is_harness(e):
            raise
        res.violations.append(exc_violation(e))
    return res


# ----------------------------------------------------------------- generators

def trees(depth, keys=KEYS):
    # leaves include falsy values: 0, '', False, None must be stored, found
    # and enumerated like any other value
    # '<proc>' becomes a node holding a Process in the Store built from the
    # tree ('..' must climb from such a node as from any other)
    leaf = st.one_of(st.integers(0, 99),
                     st.sampled_from([0, '', False, None, 'v', '<proc>']))
    if depth == 0:
        return leaf
    sub = trees(depth - 1, keys)
    branch = st.dictionaries(st.sampled_from(keys), sub, min_size=1,
                             max_size=len(keys))
    return st.one_of(leaf, branch)


def root_trees(depth):
    return st.dictionaries(st.sampled_from(KEYS), trees(depth - 1),
                           min_size=1, max_size=3)


@st.composite
def guided_walk(draw, tree, start):
    cur = list(start)
    path = []
    n = draw(st.integers(0, 6))
    for _ in range(n):
        node = ref.lookup(tree, tuple(cur))
        moves = []
        if cur:
            moves.append('..')
        if isinstance(node, dict):
            moves.extend(node.keys())
        if not moves:
            break
        if draw(st.integers(0, 9)) == 0:
            seg = draw(st.sampled_from(KEYS + ['..']))   # maybe invalid
        else:
            seg = draw(st.sampled_from(sorted(moves)))
        path.append(seg)
        if seg == '..':
            if not cur:
                break
            cur.pop()
        else:
            cur.append(seg)
    return path


@st.composite
def strategy_(draw, tier):
    tree = draw(root_trees(4))
    kind = draw(st.sampled_from(['nav', 'nav', 'pairs', 'establish', 'dict',
                                 'dict']))
    if kind == 'pairs':
        return {'kind': kind, 'tree': tree}
    if kind == 'dict':
        path = draw(st.lists(st.sampled_from(KEYS + ['d']), max_size=5))
        value = draw(st.one_of(st.integers(100, 199),
                               trees(2), st.just({})))
        if isinstance(value, dict) and not path:
            pass
        return {'kind': kind, 'tree': tree, 'path': path, 'value': value}
    allnodes = sorted(ref.nodes(tree))
    start = list(draw(st.sampled_from(allnodes)))
    if draw(st.booleans()):
        path = draw(guided_walk(tree, start))
    else:
        path = draw(st.lists(st.sampled_from(KEYS + ['..', 'd']), max_size=6))
    return {'kind': kind, 'tree': tree, 'start': start, 'path': path}


def strategy(tier):
    return strategy_(tier)


# ----------------------------------------------------------------- exhaustive

def enum_trees(depth, keys, counter=None):
    """Every tree of depth <= `depth` over `keys` (leaves get distinct ints
    later)."""
    if depth == 0:
        return [0]
    subs = enum_trees(depth - 1, keys)
    out = [0]
    for present in itertools.product([None] + list(range(len(subs))),
                                     repeat=len(keys)):
        if all(p is None for p in present):
            continue
        out.append({k: copy.deepcopy(subs[p])
                    for k, p in zip(keys, present) if p is not None})
    return out


def number_leaves(tree, counter):
    if isinstance(tree, dict):
        return {k: number_leaves(v, counter) for k, v in tree.items()}
    counter[0] += 1
    return counter[0]


def extra(tier, seed, idx, n, col):
    col.exhaustive = True
    if tier == 'quick':
        slices = [(['a', 'b'], 4)]
    else:
        slices = [(['a', 'b'], 5), (['a', 'b', 'c'], 3)]
    alphabet = KEYS + ['..']
    i = 0
    for keys, maxlen in slices:
        all_trees = [t for t in enum_trees(2, keys) if isinstance(t, dict)]
        all_paths = [list(p) for L in range(maxlen + 1)
                     for p in itertools.product(alphabet, repeat=L)]
        dict_paths = [list(p) for L in range(4)
                      for p in itertools.product(KEYS, repeat=L)]
        for t in all_trees:
            i += 1
            if i % n != idx:
                continue
            tree = number_leaves(t, [0])
            store = build_store(tree)
            spec = {'kind': 'pairs', 'tree': tree}
            yield spec, run_case(spec, store)
            for start in ref.nodes(tree):
                for path in all_paths:
                    spec = {'kind': 'nav', 'tree': tree,
                            'start': list(start), 'path': path}
                    yield spec, run_case(spec, store)
                    if len(path) <= 3:
                        spec = {'kind': 'establish', 'tree': tree,
                                'start': list(start), 'path': path}
                        yield spec, run_case(spec)
            for path in dict_paths:
                for value in (100, {'n': 101}):
                    spec = {'kind': 'dict', 'tree': tree, 'path': path,
                            'value': value}
                    yield spec, run_case(spec)


SIGNATURES = {}

"""C02  The timestep handed to a process equals the simulated interval it covers."""
from hypothesis import strategies as st

from vv import sched, kit
from vv.core import Result

ID = 'C02'
CASES = {'quick': 600, 'thorough': 40000}
HANG_IS_VIOLATION = True
RULE = ('Hypothesis draws 1..4 scripted recording processes (constant, '
        'invocation-indexed or poll-indexed timesteps - a waiting process '
        'polled again may ask for a different timestep - on a k/4 grid, or on the 10^-p grid with '
        'global_time_precision p in {1,2}), optionally vivarium\'s own Clock '
        'process, 0..2 bystander steps, an initial global time and 1..5 '
        'run_for/update calls whose lengths need not be multiples of any '
        'timestep, the last one forced. From the event log (poll, invoke, '
        'apply with simulated times) each process\'s intervals are rebuilt: '
        'arg == end-start, applied at end, contiguous from entry time, '
        'invoked inside its interval, sum(args) == elapsed, fronts complete, '
        'Clock == elapsed. Non-trivial = an interval truncated by forced '
        'completion, or a chunked run (>=2 calls) with >=2 different '
        'timesteps; distinct = spec hash.')
ASSUMPTIONS = [
    'no condition-false polls here (C02 quantifies over timesteps and call '
    'sequences; quiet processes are C01/C03)',
    'decimal-grid times are compared with tolerance 1e-9, dyadic times exactly',
]


@st.composite
def strategy_(draw, tier):
    spec = draw(sched.sched_specs(quiet=False, adaptive=True, force_last=True,
                                  precisions=(None, None, None, 1, 2),
                                  deep=tier == 'thorough', decimal_ok=True))
    if draw(st.integers(0, 5)) == 0:
        # a zero-length forced call at the end ("flush"): whoever is behind
        # the clock is handed the remainder
        if spec['calls'][-1]['op'] == 'run_for':
            spec['calls'][-1]['force'] = draw(st.booleans())
        spec['calls'].append({'op': draw(st.sampled_from(['run_for', 'update'])),
                              'interval': 0, 'force': True})
    spec['clock'] = None
    if draw(st.booleans()):
        unit = 0.25 if spec['precision'] is None else 10 ** -spec['precision']
        k = draw(st.integers(1, 16))
        spec['clock'] = k * unit if spec['precision'] is None else \
            round(k * unit, spec['precision'])
    return spec


def strategy(tier):
    return strategy_(tier)


def close(a, b, exact):
    return a == b if exact else abs(a - b) <= 1e-9


def run_case(spec):
    from vivarium.core.engine import Engine
    from vivarium.processes.clock import Clock
    res = Result()
    exact = spec['precision'] is None and not spec.get('decimal')
    ctx = kit.Context(t0=spec['t0'], budget=sched.poll_budget(spec))
    try:
        ctx, engine, failure = execute(spec, ctx)
        if failure is not None:
            res.violations.append(failure)
            parsed = sched.parse(ctx, spec)
            sched.intervals(spec, parsed, res)
            classify(spec, res, None)
            return res
        parsed = sched.parse(ctx, spec)
        ivs = sched.intervals(spec, parsed, res)
        classify(spec, res, ivs)
        if 'sched.repoll_past' in res.labels:
            # a waiting process that, polled again, asks for an interval that
            # ends before the current time: the known finding F03b of C03;
            # excluded here by construction (counted as rejected)
            res.rejected = True
            return res
        final = engine.global_time
        elapsed = final - spec['t0']
        applied = {}
        for seq, tag, t, value in parsed['applies']:
            applied.setdefault((tag, value), []).append(t)
        for name, lst in ivs.items():
            total = 0
            for k, iv in enumerate(lst):
                length = iv['end'] - iv['start']
                if not close(iv['arg'], length, exact):
                    res.fail('timestep_arg',
                             '%s invocation %d: handed timestep %r for the '
                             'interval [%r, %r] of length %r (requested %r, '
                             'truncated=%s)' % (name, k + 1, iv['arg'],
                                                iv['start'], iv['end'], length,
                                                iv['tau'], iv['truncated']),
                             'engine.py:run_for')
                if iv['poll'].cond_arg is not None and \
                        iv['poll'].cond_arg != iv['arg']:
                    res.fail('condition_arg', '%s invocation %d: update_condition '
                             'was handed timestep %r, next_update %r'
                             % (name, k + 1, iv['poll'].cond_arg, iv['arg']),
                             'engine.py:run_for')
                times = applied.get(('own:' + name, iv['token']), [])
                if len(times) != 1 or not close(times[0], iv['end'], exact):
                    res.fail('applied_at', '%s invocation %d: interval [%r,%r] '
                             'but update applied at %r' % (
                                 name, k + 1, iv['start'], iv['end'], times))
                t_inv = iv['poll'].t
                if not (iv['start'] <= t_inv + (0 if exact else 1e-9)
                        and t_inv <= iv['end'] + (0 if exact else 1e-9)):
                    res.fail('invoked_outside', '%s invocation %d at global '
                             'time %r outside its interval [%r,%r]' % (
                                 name, k + 1, t_inv, iv['start'], iv['end']))
                total += iv['arg']
            if not close(total, elapsed, exact and all(
                    isinstance(iv['arg'], (int, float)) for iv in lst)):
                if not close(total, elapsed, False):
                    res.fail('sum', '%s: timesteps handed sum to %r, simulated '
                             'time elapsed %r' % (name, total, elapsed),
                             'engine.py:run_for')
        for path, adv in engine.front.items():
            if not close(adv['time'], final, exact) or adv['update']:
                res.fail('front', 'after forced completion front[%r] = %r at '
                         'global time %r' % (path, adv, final))
        if spec['clock'] is not None:
            got = engine.state.get_path(('clockvar',)).get_value()
            if not close(got, elapsed, False):
                res.fail('clock', 'Clock(time_step=%r) reads %r after %r '
                         'simulated' % (spec['clock'], got, elapsed),
                         'engine.py:run_for')
    finally:
        ctx.close()
    return res


def execute(spec, ctx):
    from vivarium.processes.clock import Clock
    extra = None
    if spec.get('clock') is not None:
        def extra(processes, steps, topology):
            processes['clock'] = Clock({'time_step': spec['clock']})
            topology['clock'] = {'global_time': ('clockvar',)}
    return sched.execute(spec, ctx=ctx, extra=extra)


def classify(spec, res, ivs):
    taus = {t for p in spec['procs'] for t in p['ts']}
    if spec.get('clock') is not None:
        taus.add(spec['clock'])
        res.label('clock')
    if len(spec['calls']) >= 2:
        res.label('chunked')
    if spec['calls'][-1]['interval'] == 0:
        res.label('zero_length_forced_call')
    if spec['precision'] is not None:
        res.label('precision.%d' % spec['precision'])
    trunc = ivs is not None and any(iv['truncated'] for l in ivs.values()
                                    for iv in l)
    if trunc:
        res.label('truncated')
    if any(not c['force'] for c in spec['calls']):
        res.label('unforced_chunk')
    res.nontrivial = trunc or (len(spec['calls']) >= 2 and len(taus) >= 2)


SIGNATURES = {}

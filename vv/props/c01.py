"""C01  Every process update is applied exactly once, at the end of its interval."""
from hypothesis import strategies as st

from vv import sched, kit
from vv.core import Result

ID = 'C01'
CASES = {'quick': 600, 'thorough': 40000}
HANG_IS_VIOLATION = True
RULE = ('Hypothesis draws 1..4 scripted recording processes (timesteps on a k/4 '
        'grid or the 10^-1 grid with precision 1, constant or indexed by '
        'invocation; condition scripts with 0..60% false answers, never all '
        'processes quiet forever), 0..2 bystander steps, an initial global '
        'time and 1..5 run_for(interval, force)/update(interval) calls of '
        'arbitrary length. Every next_update returns a fresh power-of-two '
        'token to its own and to a shared accumulate variable whose updater '
        'records each application with the simulated time. Oracle (history '
        'invariant): applied multiset is a sub-multiset of returned tokens, '
        'each token whose interval end <= final time applied exactly once at '
        'exactly that end, in invocation order per process, in-flight ones not '
        'at all, false-condition polls contribute nothing, and every emitted '
        'row equals initial + sum of tokens whose interval ended <= its time. '
        'Non-trivial = >=2 different timesteps and one of {update deferred '
        'across a call boundary, truncation by force, quiet poll, two updates '
        'due at one instant}; distinct = spec hash.')
ASSUMPTIONS = [
    'serial processes; the parallel clause follows from C13 (parallel == serial '
    'on the same specs)',
    'when a quiet process is re-polled is unspecified and not asserted',
]


def strategy(tier):
    return sched.sched_specs(quiet=True, adaptive=False, force_last=False,
                             precisions=(None, None, None, 1), state_cond=True,
                             twin_ok=True, deep=tier == 'thorough',
                             emit_steps=(1, 1, 1, 2, 2.5), big_t0_ok=True)


def close(a, b, exact):
    return a == b if exact else abs(a - b) <= 1e-9


def run_case(spec):
    res = Result()
    exact = spec['precision'] is None
    ctx, engine, failure = sched.execute(spec)
    try:
        parsed = sched.parse(ctx, spec)
        ivs = sched.intervals(spec, parsed, res)
        classify(spec, res, parsed, ivs)
        if failure is not None:
            res.violations.append(failure)
            return res
        final = engine.global_time
        returned = {}         # token -> (name, k, iv)
        for name, lst in ivs.items():
            for k, iv in enumerate(lst):
                returned[iv['token']] = (name, k, iv)
        own_applied, shared_applied = {}, {}
        for seq, tag, t, value in parsed['applies']:
            if tag.startswith('own:p'):
                own_applied.setdefault(value, []).append((seq, t, tag))
            elif tag.startswith('shared:'):
                shared_applied.setdefault(value, []).append((seq, t, tag))
        for what, applied in (('own', own_applied), ('shared', shared_applied)):
            for token, lst in applied.items():
                if token not in returned:
                    res.fail('applied_unknown', '%s variable received %r which '
                             'no next_update returned' % (what, token))
                elif len(lst) > 1:
                    name, k, iv = returned[token]
                    res.fail('applied_twice', '%s: update %d of %s applied at '
                             'times %r' % (what, k + 1, name,
                                           [t for _, t, _ in lst]))
            for token, (name, k, iv) in returned.items():
                lst = applied.get(token, [])
                due = iv['end'] <= final + (0 if exact else 1e-9)
                if due and not lst:
                    res.fail('lost', '%s: update %d of %s (interval [%r,%r]) '
                             'never applied, final time %r'
                             % (what, k + 1, name, iv['start'], iv['end'], final))
                elif lst and not close(lst[0][1], iv['end'], exact):
                    kind = 'early' if lst[0][1] < iv['end'] else 'late'
                    res.fail(kind, '%s: update %d of %s computed for [%r,%r] '
                             'applied at %r' % (what, k + 1, name, iv['start'],
                                                iv['end'], lst[0][1]))
                elif lst and what == 'own' and iv['arg'] is not None and \
                        abs(iv['start'] + iv['arg'] - lst[0][1]) > 1e-6:
                    # the interval as the process itself was told it
                    res.fail('off_interval', 'update %d of %s was computed for '
                             'an interval of length %r starting at %r but was '
                             'applied at %r' % (k + 1, name, iv['arg'],
                                                iv['start'], lst[0][1]))
        # two ports of one process on one store: every update of each port
        twins = {p['name'] for p in spec['procs'] if p.get('twin')}
        if twins:
            res.label('twin_ports')
            twin_applied = {}
            for seq, tag, t, value in parsed['applies']:
                if tag == 'twin:t':
                    twin_applied.setdefault(value, []).append(t)
            for token, (name, k, iv) in returned.items():
                if name not in twins:
                    continue
                due = iv['end'] <= final + (0 if exact else 1e-9)
                n = len(twin_applied.get(token, []))
                if due and n != 2:
                    res.fail('twin_ports', 'update %d of %s went to two ports '
                             'wired to one store: applied %d times, expected '
                             '2' % (k + 1, name, n),
                             'topology.py:inverse_topology')
                    break
        for name, lst in ivs.items():
            seqs = [own_applied[iv['token']][0][0] for iv in lst
                    if iv['token'] in own_applied]
            if seqs != sorted(seqs):
                res.fail('order', '%s: updates applied out of invocation order'
                         % name)
        # the toggler's set-updates (False included) are updates too: each
        # one is applied exactly once, in order, at the end of its interval
        if any(p.get('cond_state') for p in spec['procs']):
            returned_flags = {}
            start = spec['t0']      # the toggler's intervals are contiguous
            for ev in ctx.log:
                if ev[0] == 'toggle' and len(ev) >= 6:
                    end = start + ev[4]
                    if not exact:
                        end = round(end, spec['precision'])
                    start = end
                    if end <= final + (0 if exact else 1e-9):
                        for n, val in ev[5].items():
                            returned_flags.setdefault(n, []).append((end, val))
            applied_flags = {}
            for seq, tag, t, value in parsed['applies']:
                if tag.startswith('flag:'):
                    applied_flags.setdefault(tag[5:], []).append((t, value))
            for n, want in returned_flags.items():
                got = applied_flags.get(n, [])
                if [v for _, v in got] != [v for _, v in want] or any(
                        not close(a[0], b[0], exact) for a, b in zip(got, want)):
                    res.fail('lost', 'condition flag %r: the toggler returned '
                             '(interval end, value) %r, applied were %r'
                             % (n, want, got), 'store.py:apply_update')
                    break
            res.label('state_condition')
        for name, polls in parsed['polls'].items():
            for rec in polls:
                if rec.cond is False and rec.token is not None:
                    res.fail('quiet_ran', '%s ran although its condition was '
                             'false at %r' % (name, rec.t))
        if spec.get('emit_step', 1) != 1:
            res.label('emit_step>1')
        # observable form (whatever the emit step: a row is stamped with the
        # time of the state it shows)
        for seq, table, t_eng, data, _ in parsed['emits']:
            if table != 'history':
                continue
            T = data.get('time')
            tot = 0
            for name, lst in ivs.items():
                want = sum(iv['token'] for iv in lst
                           if iv['end'] <= T + (0 if exact else 1e-9))
                tot += want
                got = data.get('own', {}).get(name, {}).get('acc')
                if got != want:
                    res.fail('emitted', 'row at %r: %s/acc = %r, expected %r '
                             '(bits = update indices)' % (T, name, got, want))
                    break
            else:
                got = data.get('shared', {}).get('sum')
                if got != tot:
                    res.fail('emitted', 'row at %r: shared sum = %r, expected %r'
                             % (T, got, tot))
                if twins:
                    want = 2 * sum(iv['token'] for n2 in twins
                                   for iv in ivs.get(n2, [])
                                   if iv['end'] <= T + (0 if exact else 1e-9))
                    got = data.get('twin', {}).get('sub', {}).get('t')
                    if got != want:
                        res.fail('emitted', 'row at %r: twin/sub/t = %r, '
                                 'expected %r (two ports x returned updates)'
                                 % (T, got, want),
                                 'topology.py:inverse_topology')
            if res.violations:
                break
    finally:
        ctx.close()
    return res


def classify(spec, res, parsed, ivs):
    taus = {t for p in spec['procs'] for t in p['ts']}
    quiet = any(rec.cond is False for l in parsed['polls'].values() for rec in l)
    deferred = any(rec.cond is None and rec.token is None
                   for l in parsed['polls'].values() for rec in l)
    trunc = any(iv['truncated'] for l in ivs.values() for iv in l)
    ends = {}
    for name, l in ivs.items():
        for iv in l:
            ends.setdefault(iv['end'], set()).add(name)
    coincide = any(len(v) > 1 for v in ends.values())
    for flag, lab in ((quiet, 'quiet_poll'), (deferred, 'deferred'),
                      (trunc, 'truncated'), (coincide, 'coincident')):
        if flag:
            res.label(lab)
    if spec['precision'] is not None:
        res.label('precision')
    res.nontrivial = len(taus) >= 2 and (quiet or deferred or trunc or coincide)


SIGNATURES = {}

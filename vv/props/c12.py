"""C12  The emitted history is a faithful, ordered sequence of state snapshots.

Kinds: {'kind': 'flags', ...}   static hierarchy with emit flags, store_schema
                                 overrides, units, custom serializer, emit_step
       {'kind': 'struct', ...}  structural history (rows follow the shape)
"""
import copy

from hypothesis import strategies as st

from vv import kit, struct
from vv.core import Result, exc_violation, innermost_is_harness
from vv.util import deq, getp, put, tree_leaves

ID = 'C12'
CASES = {'quick': 500, 'thorough': 30000}
RULE = ('(flags) Hypothesis draws 2..7 leaves at depth 1..3 with per-leaf _emit '
        'flags, kinds int / quantity (update in a compatible other unit) / '
        'custom _serializer, lists of quantities in mixed compatible units, a store_schema override tree with _emit on '
        'branches and leaves, 1..2 incrementing processes with different '
        'timesteps, 0..1 step, 1..4 run_for/update calls and emit_step in '
        '{1,2,3,2.5}; (struct) structural histories as in C09 whose '
        'collections are emitted. A recording emitter captures every emit and, '
        'in the same callback, a snapshot of engine.state.get_value(). Oracle: '
        'first record is the configuration, second the row of the initial time '
        '(after the initial step phase); with emit_step 1 the row times are '
        'exactly {initial} + {times at which updates were applied}, strictly '
        'increasing; every row == projection of the snapshot through the flags '
        'the generator computed (deepest store_schema entry wins, else the '
        'declared flag), quantities as serialized declared-unit values; with '
        'emit_step>1 rows are a subset (same content) of the emit_step=1 run. '
        'Non-trivial = mixed flags with a branch-level override, or a shape '
        'change between two rows, or emit_step>1; distinct = spec hash.')
ASSUMPTIONS = [
    'rows are compared on leaves (empty dictionaries ignored on both sides); '
    'emitted variables never hold None',
    'emit_step>1: identical duplicate rows and sparse subsets are tolerated '
    '(statement: "subset of those rows, identical in content")',
]

UNIT_PAIRS = [('gram', 'milligram'), ('second', 'minute'), ('liter', 'liter')]


@st.composite
def strategy_(draw, tier):
    if draw(st.integers(0, 2)) == 0:
        spec = draw(struct.histories(viewers=False, residents=True,
                                     replace_ok=True,
                                     inc_ok=False, step_op_ok=True))
        spec['kind'] = 'struct'
        return spec
    n = draw(st.integers(2, 7))
    bases = [[], ['a'], ['a', 'b'], ['c'], ['c', 'd']]
    leaves = []
    for i in range(n):
        kind = draw(st.sampled_from(['int', 'int', 'int', 'q', 'ser',
                                     'qlist']))
        leaf = {'path': draw(st.sampled_from(bases)) + ['v%d' % i],
                'emit': draw(st.booleans()), 'kind': kind}
        if kind == 'q':
            leaf['unit'], leaf['upd_unit'] = draw(st.sampled_from(UNIT_PAIRS))
            # initial state given in the *other* compatible unit
            leaf['init'] = draw(st.sampled_from([None, 3, 2500]))
        if kind == 'ser':
            leaf['inplace'] = draw(st.booleans())
        if kind == 'qlist':
            leaf['unit'], leaf['upd_unit'] = draw(st.sampled_from(UNIT_PAIRS))
            leaf['write'] = draw(st.booleans())
        leaves.append(leaf)
    overrides = []
    for _ in range(draw(st.integers(0, 3))):
        if draw(st.booleans()):
            path = draw(st.sampled_from(bases[1:]))       # branch level
        else:
            path = draw(st.sampled_from(leaves))['path']  # leaf level
        overrides.append({'path': list(path), 'emit': draw(st.booleans())})
    # a branch override is only meaningful if the branch exists
    prefixes = {tuple(l['path'][:k]) for l in leaves
                for k in range(1, len(l['path']) + 1)}
    overrides = [o for o in overrides if tuple(o['path']) in prefixes]
    ts = draw(st.lists(st.sampled_from([0.5, 1.0, 1.5, 2.0, 5.0]), min_size=1,
                       max_size=2, unique=True))
    ncalls = draw(st.integers(1, 4))
    calls = []
    for _ in range(ncalls):
        op = draw(st.sampled_from(['update', 'run_for']))
        calls.append({'op': op,
                      'interval': draw(st.sampled_from([1.0, 2.0, 3.0, 4.5, 6.0])),
                      'force': True if op == 'update' else draw(st.booleans())})
    return {'kind': 'flags', 'leaves': leaves, 'overrides': overrides,
            'ts': ts, 'step': draw(st.booleans()), 'calls': calls,
            'emit_step': draw(st.sampled_from([1, 1, 2, 3, 2.5])),
            't0': draw(st.sampled_from([0, 0, 2.0]))}


def strategy(tier):
    return strategy_(tier)


# ------------------------------------------------------------------ flags kind

def store_schema_of(spec):
    """Nested dict for Engine(store_schema=...), rooted at 'data'."""
    tree = {}
    for o in spec['overrides']:
        cur = tree
        for seg in o['path']:
            cur = cur.setdefault(seg, {})
        cur['_emit'] = o['emit']
    return {'data': tree} if tree else None


def expected_flags(spec):
    """Deepest store_schema entry along the leaf's path wins (later entries for
    one path overwrite earlier ones), else the declared flag."""
    eff = {}
    for o in spec['overrides']:
        eff[tuple(o['path'])] = o['emit']
    flags = {}
    for leaf in spec['leaves']:
        p = tuple(leaf['path'])
        flag = leaf['emit']
        for k in range(1, len(p) + 1):
            if p[:k] in eff:
                flag = eff[p[:k]]
        flags[p] = flag
    return flags


def expected_cell(leaf, value):
    if leaf['kind'] == 'q':
        from vivarium.library.units import units
        return '!units[%s]' % str(value.to(units(leaf['unit']).units))
    if leaf['kind'] == 'qlist':
        from vivarium.library.units import units
        return ['!units[%s]' % str(v.to(units(leaf['unit']).units))
                for v in value]
    if leaf['kind'] == 'ser':
        return '!tag[%r]' % (value,)
    return value


def project_flags(spec, flags, whole):
    out = {}
    for leaf in spec['leaves']:
        p = tuple(leaf['path'])
        if flags[p]:
            v = getp(whole, ['data'] + list(p), KeyError)
            if v is KeyError:
                continue
            put(out, ['data'] + list(p), expected_cell(leaf, v))
    return out


def prune(tree):
    if isinstance(tree, dict):
        out = {k: prune(v) for k, v in tree.items()}
        return {k: v for k, v in out.items()
                if not (isinstance(v, dict) and not v)}
    return tree


def run_flags_once(spec, emit_step, store_schema=None):
    from vivarium.core.engine import Engine
    ctx = kit.Context(t0=spec['t0'])
    ctx.snap = True
    try:
        processes, topology, steps, flow = {}, {}, {}, {}
        for i, ts in enumerate(spec['ts']):
            name = 'E%d' % i
            processes[name] = kit.EmitProcess({
                'name': name, 'run_id': ctx.run_id,
                'leaves': copy.deepcopy(spec['leaves']), 'time_step': ts})
            topology[name] = {'data': ('data',), 'clock': ('clock',)}
        if spec['step']:
            steps['S0'] = kit.RecStep({'name': 'S0', 'run_id': ctx.run_id})
            flow['S0'] = []
            topology['S0'] = {'own': ('own', 'S0'), 'shared': ('shared',),
                              'layer': ('layer',)}
        kwargs = dict(processes=processes, topology=topology,
                      display_info=False, emitter=kit.emitter_config(ctx),
                      emit_step=emit_step, initial_global_time=spec['t0'])
        if steps:
            kwargs.update(steps=steps, flow=flow)
        # (the same store_schema object may be handed to several engines)
        ss = store_schema if store_schema is not None else \
            store_schema_of(spec)
        if ss:
            kwargs['store_schema'] = ss
        init = {}
        for leaf in spec['leaves']:
            if leaf['kind'] == 'q' and leaf.get('init') is not None:
                from vivarium.library.units import units
                put(init, ['data'] + leaf['path'],
                    leaf['init'] * units(leaf['upd_unit']).units)
        if init:
            kwargs['initial_state'] = init
        engine = Engine(**kwargs)
        ctx.engine = engine
        kit.fill_initial_snapshots(ctx, engine)
        for call in spec['calls']:
            if call['op'] == 'update':
                engine.update(call['interval'])
            else:
                engine.run_for(call['interval'], force_complete=call['force'])
        return list(ctx.log)
    finally:
        ctx.close()


def run_flags(spec, res):
    flags = expected_flags(spec)
    vals = set(flags.values())
    branch_override = any(
        tuple(o['path']) not in flags for o in spec['overrides'])
    if branch_override:
        res.label('branch_override')
    if len(vals) > 1:
        res.label('mixed_flags')
    if spec['emit_step'] != 1:
        res.label('emit_step>1')
    res.nontrivial = (len(vals) > 1 and branch_override) or \
        spec['emit_step'] != 1
    shared_ss = store_schema_of(spec)
    ss_before = copy.deepcopy(shared_ss)
    log = run_flags_once(spec, spec['emit_step'], shared_ss)
    emits = [ev for ev in log if ev[0] == 'emit']
    if not emits or emits[0][1] != 'configuration':
        res.fail('first_record', 'first emitted record is %r'
                 % (emits[0][1] if emits else None,))
        return
    hist = [ev for ev in emits if ev[1] == 'history']
    if len(emits) < 2 or emits[1][1] != 'history' or \
            emits[1][3].get('time') != spec['t0']:
        res.fail('initial_row', 'second record is not the row of the initial '
                 'time %r' % (spec['t0'],))
        return
    if sum(1 for ev in emits if ev[1] == 'configuration') != 1:
        res.fail('configuration.count', 'more than one configuration record')
    # every row == projection of the snapshot taken in the same callback
    for ev in hist:
        row = {k: v for k, v in ev[3].items() if k != 'time'}
        whole = ev[4]
        want = project_flags(spec, flags, whole)
        got = {k: v for k, v in prune(row).items() if k == 'data'}
        d = deq(got, prune(want))
        if d:
            res.fail('row', 'row at %r: %s\n emitted %r\n expected %r (flags %r)'
                     % (ev[3].get('time'), d, got, prune(want),
                        {'/'.join(k): v for k, v in flags.items()}),
                     'store.py:emit_data')
            return
        if ev[3].get('time') != ev[2]:
            res.fail('row.time', 'row time %r emitted at global time %r'
                     % (ev[3].get('time'), ev[2]))
            return
        # nothing else leaks: only 'data' may hold leaves (steps' variables
        # are flagged by the kit; clock/tick is not)
        if 'clock' in prune(row):
            res.fail('row.unflagged', 'clock/tick is not flagged but emitted')
            return
    if spec['step']:
        first = hist[0][3]
        if not first.get('own', {}).get('S0', {}).get('acc'):
            res.fail('initial_row.before_steps', 'initial row does not show '
                     'the effect of the initial step phase: %r' % (first,),
                     'engine.py:__init__')
            return
    times = [ev[3]['time'] for ev in hist]
    if spec['emit_step'] == 1:
        applied = sorted({ev[2] for ev in log if ev[0] == 'apply'
                          and ev[1] == 'tick'})
        want_times = [spec['t0']] + [t for t in applied if t != spec['t0']]
        if times != want_times:
            res.fail('row.times', 'row times %r, updates were applied at %r '
                     '(initial %r)' % (times, applied, spec['t0']),
                     'engine.py:run_for')
            return
        if any(b <= a for a, b in zip(times, times[1:])):
            res.fail('row.times', 'row times not strictly increasing: %r'
                     % (times,))
    else:
        if any(b < a for a, b in zip(times, times[1:])):
            res.fail('row.times', 'row times decrease: %r' % (times,),
                     'engine.py:run_for')
            return
        base = run_flags_once(spec, 1, shared_ss)
        if shared_ss != ss_before:
            res.label('store_schema.modified_by_engine')
        rows1 = {}
        for ev in base:
            if ev[0] == 'emit' and ev[1] == 'history':
                rows1[ev[3]['time']] = prune(
                    {k: v for k, v in ev[3].items() if k != 'time'})
        for ev in hist:
            t = ev[3]['time']
            row = prune({k: v for k, v in ev[3].items() if k != 'time'})
            if t not in rows1:
                res.fail('subset', 'emit_step %r emitted a row at %r which the '
                         'emit_step 1 run does not have (%r)'
                         % (spec['emit_step'], t, sorted(rows1)),
                         'engine.py:run_for')
                return
            d = deq(strip_tokens(row), strip_tokens(rows1[t]))
            if d:
                res.fail('subset.content', 'row at %r differs from the '
                         'emit_step 1 run: %s' % (t, d), 'engine.py:run_for')
                return


def strip_tokens(row):
    """Step tokens depend on the global token counter only; both runs are
    deterministic, nothing to strip."""
    return row


# ------------------------------------------------------------------ struct kind

def run_struct(spec, res):
    from vivarium.core.engine import Engine
    kinds, n = struct.classify(spec, res)
    ctx = kit.Context()
    ctx.snap = True
    try:
        engine = Engine(**struct.build(spec, ctx))
        ctx.engine = engine
        kit.fill_initial_snapshots(ctx, engine)
        for _ in range(len(spec['ticks']) + 1):
            engine.update(1)
        emits = [ev for ev in ctx.log if ev[0] == 'emit']
        if not emits or emits[0][1] != 'configuration':
            res.fail('first_record', 'first emitted record is %r'
                     % (emits[0][1] if emits else None,))
            return
        nconf = sum(1 for ev in emits if ev[1] == 'configuration')
        if nconf != 1:
            res.fail('configuration.count', '%d configuration records were '
                     'emitted (at engine times %r); exactly one is expected, '
                     'before the first row' % (
                         nconf, [ev[2] for ev in emits
                                 if ev[1] == 'configuration']),
                     'engine.py:_emit_configuration')
            return
        hist = [ev for ev in ctx.log if ev[0] == 'emit' and ev[1] == 'history']
        shapes = set()
        prev_t = None
        for ev in hist:
            row = prune({k: v for k, v in ev[3].items() if k != 'time'})
            whole = struct.strip(ev[4])
            want = prune({k: v for k, v in whole.items()
                          if k in ('G1', 'G2', 'clock')})
            got = {k: v for k, v in row.items() if k in ('G1', 'G2', 'clock')}
            d = deq(got, want)
            if d:
                res.fail('row', 'row at %r does not equal the hierarchy at that '
                         'moment: %s' % (ev[3].get('time'), d),
                         'store.py:emit_data')
                return
            shapes.add(repr(sorted(p for p, _ in tree_leaves(got))))
            t = ev[3]['time']
            if prev_t is not None and t <= prev_t:
                res.fail('row.times', 'row time %r after %r' % (t, prev_t))
                return
            prev_t = t
        res.nontrivial = len(shapes) >= 2
        if len(shapes) >= 2:
            res.label('shape_change')
    finally:
        ctx.close()


def run_case(spec):
    res = Result()
    res.label('kind.' + spec['kind'])
    try:
        if spec['kind'] == 'flags':
            run_flags(spec, res)
        else:
            run_struct(spec, res)
    except Exception as e:
        if innermost_is_harness(e):
            raise
        res.violations.append(exc_violation(e))
    return res


SIGNATURES = {}

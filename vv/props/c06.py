"""C06  A port reads and writes the same store node, for every topology."""
import copy

from hypothesis import strategies as st

from vv import kit, hier
from vv.core import Result, exc_violation, innermost_is_harness
from vv.util import deq, getp, put, tree_leaves

ID = 'C06'
CASES = {'quick': 600, 'thorough': 40000}
RULE = ('Hierarchy-first: Hypothesis draws a target tree (depth <=4, distinct '
        'integer leaves, optional collection nodes whose children are alike), '
        'then 1..3 processes placed at depth 0..3, each with 1..3 ports drawn '
        'from: dict port on a branch (nested variables), ".." detours through '
        'existing nodes, _path split with a re-wired or renamed variable, leaf '
        'port (port = variable), glob port over a collection (optionally with '
        'a per-child sub-topology), repeated targets (aliasing), output-only '
        'ports; the generator records W: port variable -> absolute node. One '
        'tick; every port variable gets a distinct power-of-two increment. '
        'Oracle: value read at v == initial value of W(v); afterwards node n == '
        'initial + sum of increments of all v with W(v)=n; every other node '
        'unchanged. Non-trivial = the wiring uses "..", a _path split, a '
        'rename, a glob or aliasing; distinct = spec hash.')
ASSUMPTIONS = [
    'detours ("x","..") only pass through nodes that are known to exist '
    '(a background process declares every leaf when detours are generated)',
    'glob children with a per-child sub-topology are provisioned by a declaring '
    'process, never by the initial state alone (finding D16 is C15\'s subject)',
]


@st.composite
def strategy_(draw, tier):
    spec = draw(hier.wirings())
    # partial updates: a process need not return every variable of a port
    # (nor the same variables for every child of a glob port)
    omit = []
    if draw(st.booleans()):
        for i, p in enumerate(spec['procs']):
            for j in range(len(p['W'])):
                if draw(st.integers(0, 2)) == 0:
                    omit.append([i, j])
    spec['omit'] = omit
    # every returned increment is one and the same Python object (a value
    # computed once and re-used): two updates that are the same object are
    # still two updates
    spec['same_object'] = draw(st.integers(0, 3)) == 0
    # one or two invocations (the second call must be routed like the first)
    spec['ticks'] = draw(st.sampled_from([1, 1, 2]))
    return spec


def strategy(tier):
    return strategy_(tier)


SAME_OBJECT = 1 << 40          # one int object (not a cached small int)


def build(spec, ctx, increments=True):
    processes, topology = {}, {}
    incs = []           # (proc, view, node, inc)
    bit = 0
    omit = {tuple(o) for o in spec.get('omit') or []}
    for i, p in enumerate(spec['procs']):
        update = {}
        for j, (view, node) in enumerate(p['W']):
            if (i, j) in omit:
                # read but not written in this update
                incs.append((p['name'], view, node, 0))
                continue
            inc = 1 << bit
            bit += 1
            if spec.get('same_object'):
                inc = SAME_OBJECT
            put(update, view, inc)
            incs.append((p['name'], view, node, inc))
        proc = kit.WireProcess({
            'name': p['name'], 'run_id': ctx.run_id,
            'schema': copy.deepcopy(p['schema']),
            'update': update if increments else {}})
        hier.deep_merge(processes, hier.nest_at(p['at'], {p['name']: proc}))
        hier.deep_merge(topology, hier.nest_at(
            p['at'], {p['name']: hier.tup(p['topology'])}))
    if spec['background']:
        schema, topo = hier.background_schema(spec['tree'])
        processes['BG'] = kit.WireProcess({
            'name': 'BG', 'run_id': 0, 'schema': schema, 'update': {}})
        topology['BG'] = topo
    return processes, topology, incs


def strip_processes(tree):
    if isinstance(tree, dict):
        out = {}
        for k, v in tree.items():
            w = strip_processes(v)
            if w is not None:
                out[k] = w
        return out
    if isinstance(tree, str) and tree.startswith('<process'):
        return None
    return tree


def run_case(spec):
    from vivarium.core.engine import Engine
    res = Result()
    labs = hier.labels(spec)
    res.label(*labs)
    if spec.get('omit'):
        res.label('partial_update')
    if spec.get('same_object'):
        res.label('same_object_updates')
    res.nontrivial = bool(labs & {'dotdot', 'split', 'rename', 'glob',
                                  'alias.same_process', 'glob.subtopology'})
    ctx = kit.Context()
    try:
        processes, topology, incs = build(spec, ctx)
        engine = Engine(processes=processes, topology=topology,
                        initial_state=copy.deepcopy(spec['tree']),
                        display_info=False, emitter=kit.emitter_config(ctx))
        ctx.engine = engine
        before = strip_processes(kit.plain_state(engine.state.get_value()))
        # every wired node exists and holds the tree's value
        for pname, view, node, inc in incs:
            want = getp(spec['tree'], node)
            got = getp(before, node, KeyError)
            if got is KeyError or got != want:
                res.fail('construct', '%s %r -> node %r holds %r, tree says %r'
                         % (pname, view, node, got, want))
                return res
        nticks = spec.get('ticks', 1)
        engine.update(nticks)
        if nticks > 1:
            res.label('two_invocations')
        # read side
        outputs = {p['name']: set(p['outputs']) for p in spec['procs']}
        seen = {}
        for ev in ctx.log:
            if ev[0] == 'invoke' and ev[1] not in seen:
                seen[ev[1]] = ev[5]
        for pname, view, node, inc in incs:
            if pname not in seen:
                res.fail('not_invoked', pname)
                return res
            if view[0] in outputs[pname]:
                continue
            got = getp(seen[pname], view, KeyError)
            want = getp(spec['tree'], node)
            if got is KeyError or got != want:
                res.fail('read', '%s reads %r = %r but node %r holds %r '
                         '(topology %r)' % (pname, view, got, node, want,
                                            topo_of(spec, pname)),
                         'store.py:schema_topology')
                return res
        # write side + frame condition
        expected = copy.deepcopy(before)
        for pname, view, node, inc in incs:
            put(expected, node, getp(expected, node) + inc * nticks)
        after = strip_processes(kit.plain_state(engine.state.get_value()))
        if deq(after, expected):
            # describe the first differing leaf
            exp_l = dict(tree_leaves(expected))
            got_l = dict(tree_leaves(after))
            for path in sorted(set(exp_l) | set(got_l), key=str):
                if exp_l.get(path, KeyError) != got_l.get(path, KeyError):
                    writers = [(pn, v, i) for pn, v, n, i in incs
                               if tuple(n) == path]
                    kind = 'write' if writers else 'frame'
                    res.fail(kind, 'node %r: holds %r, expected %r (before %r, '
                             'writers %r)' % (path, got_l.get(path, 'MISSING'),
                                              exp_l.get(path, 'MISSING'),
                                              getp(before, path, 'MISSING'),
                                              writers),
                             'topology.py:inverse_topology')
                    break
    except Exception as e:
        if innermost_is_harness(e):
            raise
        res.violations.append(exc_violation(e))
    finally:
        ctx.close()
    return res


def topo_of(spec, pname):
    for p in spec['procs']:
        if p['name'] == pname:
            return p['topology']


def sig_leaf_alias(spec, v, res):
    return 'alias.leaf_ports' in res.labels and v.kind == 'write'


SIGNATURES = {'leaf_alias': sig_leaf_alias}

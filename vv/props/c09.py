"""C09  Structural updates change the hierarchy exactly as specified and nothing else."""
import copy

from hypothesis import strategies as st

from vv import kit, struct
from vv.util import deq
from vv.core import Result, exc_violation, innermost_is_harness

ID = 'C09'
CASES = {'quick': 400, 'thorough': 25000}
RULE = ('Model-based stateful generation: a composite strategy threads a '
        'plain-dict reference hierarchy (vv/ref/tree.py) through its draws and '
        'emits a history of 1..6 (thorough: ..12) batches, each with 1..3 '
        'operations valid against the model at that point: _add (fresh key, '
        'partial state), _delete by key / tuple path / deep tuple path, '
        '_generate (with or without resident process, flow step, deriver), '
        '_divide (explicit daughters or copied from the mother, optional '
        'daughter initial states), _move (to another collection, optional '
        'extended target path and update), plain value updates, add+delete and '
        'update+delete of one key in one batch, adding an existing key (must '
        'raise); issued by an operator process or step against two top-level '
        'collections and one nested collection. After every batch: '
        'values(engine.state.get_value()) == model, process/step names per '
        'compartment == model, Store identity of every untouched (and moved) '
        'node preserved. One case in six instead drives a collection whose '
        'children are plain variables (\'*\': {_default: d}) with _add of any '
        'state (0, 0.0, False, \'\', [] included), _delete, set updates, '
        're-used keys and adding an existing key. Non-trivial = >=3 ops of >=2 kinds, or a combined '
        'batch, or a nested target; distinct = spec hash.')
ASSUMPTIONS = [
    'keys are globally fresh, so no operation targets a key another operation '
    'of the same batch creates or removes (except the generated add+delete and '
    'update+delete pairs)',
    'resident processes do not change values here (C10 covers running '
    'residents); dividers are the default set divider (C11 covers dividers)',
]


LEAF_VALUES = [0, 0.0, False, '', [], 5, 7, 'a', [1], True, -2]
LEAF_DEFAULTS = [5, True, 'd', [7], 1.5, 0]


@st.composite
def leaf_histories(draw, tier):
    """A collection whose children are plain variables ('*': {'_default': d}):
    _add with any state (falsy ones included), _delete, set updates."""
    keys = ['k%d' % i for i in range(8)]
    value = st.sampled_from(LEAF_VALUES)
    init = {k: draw(value) for k in draw(st.lists(
        st.sampled_from(keys[:4]), max_size=3, unique=True))}
    live = set(init)
    fresh = [k for k in keys if k not in live]
    ticks = []
    reject = False
    for _ in range(draw(st.integers(1, 4 if tier == 'quick' else 8))):
        batch, touched, freed = [], set(), []
        for _ in range(draw(st.integers(1, 3))):
            kinds = []
            if fresh:
                kinds += ['add', 'add']
            cand = sorted(live - touched)
            if cand:
                kinds += ['delete', 'set']
            if not kinds:
                break
            kind = draw(st.sampled_from(kinds))
            if kind == 'add':
                k = fresh.pop(0)
                batch.append({'op': 'add', 'key': k, 'state': draw(value)})
                live.add(k)
            else:
                k = draw(st.sampled_from(cand))
                if kind == 'delete':
                    batch.append({'op': 'delete', 'key': k})
                    live.discard(k)
                    freed.append(k)         # the key may come back later
                else:
                    batch.append({'op': 'set', 'key': k, 'value': draw(value)})
            touched.add(k)
        fresh.extend(freed)
        ticks.append(batch)
    if live and draw(st.integers(0, 5)) == 0:
        reject = True
        ticks.append([{'op': 'add_existing',
                       'key': draw(st.sampled_from(sorted(live))),
                       'state': draw(value)}])
    elif fresh and draw(st.integers(0, 5)) == 0:
        # one _add list naming the same new key twice: the second entry adds
        # an existing key
        reject = True
        k = fresh.pop(0)
        ticks.append([{'op': 'add', 'key': k, 'state': draw(value)},
                      {'op': 'add_existing', 'key': k, 'state': draw(value)}])
    return {'kind': 'leaves', 'default': draw(st.sampled_from(LEAF_DEFAULTS)),
            'init': init, 'ticks': ticks, 'expect_reject': reject,
            'op_is_step': draw(st.integers(0, 3)) == 0}


@st.composite
def strategy_(draw, tier):
    if draw(st.integers(0, 5)) == 0:
        return draw(leaf_histories(tier))
    return draw(struct.histories(viewers=False, residents=True, inc_ok=False,
                                 max_ticks=6 if tier == 'quick' else 12,
                                 reject_ok=True, tuple_delete=True,
                                 none_ok=True, replace_ok=True))


def strategy(tier):
    return strategy_(tier)


def leaf_update(batch):
    upd = {}
    for op in batch:
        if op['op'] in ('add', 'add_existing'):
            upd.setdefault('_add', []).append(
                {'key': op['key'], 'state': copy.deepcopy(op['state'])})
        elif op['op'] == 'delete':
            upd.setdefault('_delete', []).append(op['key'])
        else:
            upd[op['key']] = copy.deepcopy(op['value'])
    return {'pool': upd}


def run_leaves(spec, res):
    from vivarium.core.engine import Engine
    res.label('leaf_collection')
    ctx = kit.Context()
    try:
        script = [leaf_update(b) for b in spec['ticks']]
        schema = {'pool': {'*': {'_default': copy.deepcopy(spec['default']),
                                 '_updater': 'set', '_emit': True}},
                  'other': {'keep': {'_default': 3, '_emit': True}}}
        params = {'name': 'OP', 'run_id': ctx.run_id, 'schema': schema,
                  'time_step': 1.0}
        kwargs = dict(topology={'OP': {'pool': ('pool',),
                                       'other': ('other',)}},
                      initial_state={'pool': copy.deepcopy(spec['init']),
                                     'other': {'keep': 3}},
                      display_info=False, emitter=kit.emitter_config(ctx))
        if spec['op_is_step']:
            res.label('op_is_step')
            # the construction phase is the step's first call
            kwargs.update(
                steps={'OP': kit.WireStep(dict(params, script=[{}] + script))},
                flow={'OP': []},
                processes={'TK': kit.TickProcess({
                    'name': 'TK', 'run_id': ctx.run_id, 'time_step': 1.0})})
            kwargs['topology']['TK'] = {'clock': ('clock',)}
        else:
            kwargs.update(processes={'OP': kit.WireProcess(
                dict(params, script=script))})
        engine = Engine(**kwargs)
        ctx.engine = engine
        model = copy.deepcopy(spec['init'])

        def pool():
            return kit.plain_state(engine.state.get_value()).get('pool', {})
        if deq(pool(), model):
            res.fail('initial', 'pool after construction %r, initial state %r'
                     % (pool(), model))
            return
        falsy = 0
        for n, batch in enumerate(spec['ticks']):
            node = engine.state.inner['pool']
            before = {k: id(v) for k, v in node.inner.items()}
            ctx.keep.extend(node.inner.values())
            if any(op['op'] == 'add_existing' for op in batch):
                try:
                    engine.update(1)
                except Exception:
                    res.label('add_existing.rejected')
                    res.nontrivial = True
                    return
                res.fail('add_existing.accepted', 'adding the existing key %r '
                         'to a collection of variables was not rejected'
                         % batch[0]['key'], 'store.py:add')
                return
            engine.update(1)
            touched = set()
            for op in batch:
                touched.add(op['key'])
                if op['op'] == 'add':
                    model[op['key']] = copy.deepcopy(op['state'])
                    if not op['state'] and op['state'] != spec['default']:
                        falsy += 1
                elif op['op'] == 'set':
                    model[op['key']] = copy.deepcopy(op['value'])
                else:
                    model.pop(op['key'], None)
            d = deq(pool(), model)
            if d:
                res.fail('hierarchy', 'after batch %d %r (default %r): %s\n  '
                         'pool %r\n  expected %r' % (n, batch, spec['default'],
                                                     d, pool(), model),
                         'store.py:apply_update')
                return
            after = engine.state.inner['pool'].inner
            for k, i in before.items():
                if k not in touched and k in after and id(after[k]) != i:
                    res.fail('identity', 'after batch %d %r the untouched '
                             'variable %r was rebuilt' % (n, batch, k))
                    return
            whole = kit.plain_state(engine.state.get_value())
            if whole.get('other') != {'keep': 3}:
                res.fail('hierarchy', 'after batch %d the bystander store '
                         'holds %r' % (n, whole.get('other')))
                return
        if falsy:
            res.label('leaf.add_falsy_state')
        res.nontrivial = falsy > 0 or sum(len(b) for b in spec['ticks']) >= 3
    finally:
        ctx.close()


def run_case(spec):
    res = Result()
    try:
        if spec.get('kind') == 'leaves':
            run_leaves(spec, res)
            return res
        struct.run_model(spec, res)
    except Exception as e:
        if innermost_is_harness(e):
            raise
        res.violations.append(exc_violation(e))
    return res


def sig_tuple_delete(spec, v, res):
    """F09a: the tuple-path form of _delete deletes nothing."""
    if spec.get('kind') == 'leaves':
        return False
    if v.kind not in ('hierarchy', 'residents', 'identity'):
        return False
    return any(op['op'] == 'delete' and op.get('form') in ('tuple', 'deep')
               for batch in spec['ticks'] for op in batch)


SIGNATURES = {'tuple_delete': sig_tuple_delete}

"""C09  Structural updates change the hierarchy exactly as specified and nothing else."""
from hypothesis import strategies as st

from vv import struct
from vv.core import Result, exc_violation, innermost_is_harness

ID = 'C09'
CASES = {'quick': 400, 'thorough': 25000}
RULE = ('Model-based stateful generation: a composite strategy threads a '
        'plain-dict reference hierarchy (vv/ref/tree.py) through its draws and '
        'emits a history of 1..6 (thorough: ..12) batches, each with 1..3 '
        'operations valid against the model at that point: _add (fresh key, '
        'partial state), _delete by key / tuple path / deep tuple path, '
        '_generate (with or without resident process, flow step, deriver), '
        '_divide (explicit daughters or copied from the mother, optional '
        'daughter initial states), _move (to another collection, optional '
        'extended target path and update), plain value updates, add+delete and '
        'update+delete of one key in one batch, adding an existing key (must '
        'raise); issued by an operator process or step against two top-level '
        'collections and one nested collection. After every batch: '
        'values(engine.state.get_value()) == model, process/step names per '
        'compartment == model, Store identity of every untouched (and moved) '
        'node preserved. Non-trivial = >=3 ops of >=2 kinds, or a combined '
        'batch, or a nested target; distinct = spec hash.')
ASSUMPTIONS = [
    'keys are globally fresh, so no operation targets a key another operation '
    'of the same batch creates or removes (except the generated add+delete and '
    'update+delete pairs)',
    'resident processes do not change values here (C10 covers running '
    'residents); dividers are the default set divider (C11 covers dividers)',
]


def strategy(tier):
    return struct.histories(viewers=False, residents=True, inc_ok=False,
                            max_ticks=6 if tier == 'quick' else 12,
                            reject_ok=True, tuple_delete=True, none_ok=True)


def run_case(spec):
    res = Result()
    try:
        struct.run_model(spec, res)
    except Exception as e:
        if innermost_is_harness(e):
            raise
        res.violations.append(exc_violation(e))
    return res


def sig_tuple_delete(spec, v, res):
    """F09a: the tuple-path form of _delete deletes nothing."""
    if v.kind not in ('hierarchy', 'residents', 'identity'):
        return False
    return any(op['op'] == 'delete' and op.get('form') in ('tuple', 'deep')
               for batch in spec['ticks'] for op in batch)


SIGNATURES = {'tuple_delete': sig_tuple_delete}

"""C15  Every declared variable is built with its explicit or default initial value."""
import copy

from hypothesis import strategies as st

from vv import kit, hier
from vv.core import Result, exc_violation, innermost_is_harness
from vv.util import deq, getp, put, tree_leaves
from vv.props import c06

ID = 'C15'
CASES = {'quick': 600, 'thorough': 50000}
RULE = ('Hierarchy-first wiring specs (vv.hier: plain, "..", _path split, '
        'rename, leaf, glob, aliasing; 1..3 processes at depth 0..3, optional '
        'background declarer) with a distinct default per declared node '
        '(several declarers: equal default, different defaults, or only one '
        'declares it), optional non-conflicting _value, a drawn PARTIAL initial '
        'state (subset of leaves; glob children named with partial or empty '
        'content), built through Engine(...) or generate_state(...); plus a '
        'conflict class in which a second declarer disagrees on _value, _units '
        'or _serializer (must raise at construction), and processes with '
        'initial_state() whose Composite.initial_state()/default_state() must '
        'place the values at the wired nodes. Oracle: every wired node exists; '
        'value == initial if given else a declared default/_value. Non-trivial = a node with >=2 declarers, or a '
        'glob child from the initial state, or partial state at depth >=2; '
        'distinct = spec hash.')
ASSUMPTIONS = [
    'differing _default values from several declarers are not a conflict: any '
    'declared default is accepted',
    'glob children with a per-child sub-topology may be named in the initial '
    'state only (class of the repaired defect D16)',
]


@st.composite
def strategy_(draw, tier):
    spec = draw(hier.wirings(features=('dotdot', 'split', 'leaf', 'glob',
                                       'alias', 'subtopo_initial',
                                       'omit_port')))
    tree = spec['tree']
    counter = [1000]

    def fresh():
        counter[0] += 1
        return counter[0]
    node_default = {}
    glob_declared = set()   # (collection, variable) that has a default
    declared = {}           # node -> list of defaults declared
    glob_ports = {}
    for p in spec['procs']:
        gp = {g['view'][0] for g in p['globs']}
        glob_ports[p['name']] = gp
        gdefault = {}
        for view, node in p['W']:
            key = tuple(node)
            if view[0] in gp:
                var = view[-1]
                gkey = (view[0], var)
                if gkey not in gdefault:
                    coll = tuple(node[:-(len(view) - 1)]) if False else None
                    G = [g['node'] for g in p['globs']
                         if g['view'][0] == view[0]][0]
                    first = (tuple(G), var) not in glob_declared
                    if first or draw(st.booleans()):
                        gdefault[gkey] = fresh()
                        p['schema'][view[0]]['*'][var]['_default'] = \
                            gdefault[gkey]
                        glob_declared.add((tuple(G), var))
                    else:
                        # a later declarer of the same glob variable that
                        # gives no default of its own
                        gdefault[gkey] = None
                        leaf = p['schema'][view[0]]['*'][var]
                        leaf.pop('_default', None)
                        leaf['_emit'] = True
                if gdefault[gkey] is not None:
                    declared.setdefault(key, []).append(gdefault[gkey])
                else:
                    declared.setdefault(key, [])
                continue
            mode = draw(st.sampled_from(['same', 'same', 'own', 'omit']))
            if key not in node_default:
                node_default[key] = fresh()
                mode = 'same'
            leaf = getp(p['schema'], view)
            if mode == 'same':
                leaf['_default'] = node_default[key]
                declared.setdefault(key, []).append(node_default[key])
            elif mode == 'own':
                leaf['_default'] = fresh()
                declared.setdefault(key, []).append(leaf['_default'])
            else:
                leaf.pop('_default', None)
                leaf['_emit'] = True
                declared.setdefault(key, [])
    # partial initial state
    initial = {}
    given = {}
    for path, val in tree_leaves(tree):
        if hier.inside(path, spec['collections']):
            continue
        if draw(st.booleans()):
            if draw(st.integers(0, 3)) == 0:
                # an explicit falsy initial value is still a value
                val = draw(st.sampled_from([0, 0.0, False, '', []]))
            put(initial, list(path), val)
            given[path] = val
    for G in spec['collections']:
        for child, content in getp(tree, G).items():
            entry = {}
            for path, val in tree_leaves(content):
                if draw(st.booleans()):
                    if draw(st.integers(0, 3)) == 0:
                        val = draw(st.sampled_from([0, 0.0, False, '', []]))
                    put(entry, list(path), val)
                    given[tuple(G) + (child,) + path] = val
            put(initial, list(G) + [child], entry)
    spec['initial'] = initial
    spec['entry'] = draw(st.sampled_from(['engine', 'generate_state',
                                          'composite']))
    # conflict class
    spec['conflict'] = None
    nodes = sorted(n for n, d in declared.items() if d)
    plain = [n for n in nodes if not hier.inside(n, spec['collections'])]
    if plain and draw(st.integers(0, 5)) == 0:
        spec['conflict'] = {'node': list(draw(st.sampled_from(plain))),
                            'what': draw(st.sampled_from(
                                ['_value', '_units', '_units', '_serializer'])),
                            # different units, of different or of the same
                            # dimension, in either order
                            'units': list(draw(st.permutations(draw(
                                st.sampled_from([
                                    ['g', 's'], ['g', 'mg'], ['fg', 'g'],
                                    ['mM', 'mol/L'], ['s', 'hour'],
                                    ['m', 'mm']]))))),
                            'values': draw(st.sampled_from(
                                [[5, 6], [0, 1], [1, 1.5],
                                 ['a', 'b'], [[1], [1, 2]]]))}
    # processes' own initial_state(): values for some of their non-glob views
    for p in spec['procs']:
        init = {}
        for view, node in p['W']:
            if view[0] in glob_ports[p['name']]:
                continue
            if draw(st.integers(0, 2)) == 0:
                put(init, view, fresh())
        p['init'] = init
    return spec


def strategy(tier):
    return strategy_(tier)


def isin(value, candidates):
    """Membership by equality (the value may be an unhashable dict)."""
    return any(type(value) is type(c) and value == c for c in candidates)


def build(spec, ctx):
    processes, topology = {}, {}
    for p in spec['procs']:
        proc = kit.WireProcess({
            'name': p['name'], 'run_id': ctx.run_id,
            'schema': copy.deepcopy(p['schema']), 'update': {},
            'init': copy.deepcopy(p.get('init') or {})})
        hier.deep_merge(processes, hier.nest_at(p['at'], {p['name']: proc}))
        hier.deep_merge(topology, hier.nest_at(
            p['at'], {p['name']: hier.tup(p['topology'])}))
    bg_defaults = {}
    if spec['background']:
        schema, topo = hier.background_schema(spec['tree'])
        # the background declares every leaf with its own default
        n = 5000
        for path, _ in tree_leaves(spec['tree']):
            n += 1
            leaf = getp(schema, list(path))
            leaf['_default'] = n
            bg_defaults[path] = n
        processes['BG'] = kit.WireProcess({
            'name': 'BG', 'run_id': 0, 'schema': schema, 'update': {}})
        topology['BG'] = topo
    if spec['conflict']:
        from vivarium.library.units import units
        node = spec['conflict']['node']
        what = spec['conflict']['what']
        a = {'_default': 1}
        b = {'_default': 1}
        if what == '_value':
            a['_value'], b['_value'] = spec['conflict'].get('values', [5, 6])
        elif what == '_units':
            ua, ub = [units(u).units for u in
                      spec['conflict'].get('units', ['g', 's'])]
            a['_default'] = 1 * ua
            b['_default'] = 1 * ua
            a['_units'], b['_units'] = ua, ub
        else:
            a['_serializer'], b['_serializer'] = 'vv-tag', 'vv-tag2'
        for name, decl in (('CA', a), ('CB', b)):
            processes[name] = kit.WireProcess({
                'name': name, 'run_id': 0, 'schema': {'c': decl}, 'update': {}})
            topology[name] = {'c': tuple(node)}
    return processes, topology, bg_defaults


def run_case(spec):
    from vivarium.core.engine import Engine
    from vivarium.core.store import generate_state
    from vivarium.core.composer import Composite
    res = Result()
    labs = hier.labels(spec)
    res.label(*labs)
    res.label('entry.' + spec['entry'])
    ctx = kit.Context()
    try:
        processes, topology, bg_defaults = build(spec, ctx)
        initial = copy.deepcopy(spec['initial'])
        if spec['conflict']:
            res.label('conflict.' + spec['conflict']['what'])
            res.nontrivial = True
            try:
                generate_state(processes, topology, initial)
            except ValueError:
                return res
            except Exception as e:
                if innermost_is_harness(e):
                    raise
                res.fail('conflict.wrong_exception', '%s: %s'
                         % (type(e).__name__, e))
                return res
            res.fail('conflict.accepted', 'declarers disagreeing on %s of node '
                     '%r were merged silently' % (spec['conflict']['what'],
                                                  spec['conflict']['node']),
                     'store.py:_check_schema')
            return res
        if spec['entry'] == 'engine':
            engine = Engine(processes=processes, topology=topology,
                            initial_state=initial, display_info=False,
                            emitter=kit.emitter_config(ctx))
            store = engine.state
        elif spec['entry'] == 'composite':
            comp = Composite({'processes': processes, 'topology': topology,
                              'state': initial})
            store = comp.generate_store()
        else:
            store = generate_state(processes, topology, initial)
        whole = c06.strip_processes(kit.plain_state(store.get_value()))
        # expectations
        declared = {}
        for p in spec['procs']:
            gp = {g['view'][0] for g in p['globs']}
            for view, node in p['W']:
                if view[0] in gp:
                    d = getp(p['schema'][view[0]]['*'], view[2:]).get('_default')
                else:
                    d = getp(p['schema'], view).get('_default')
                declared.setdefault(tuple(node), set())
                if d is not None:
                    declared[tuple(node)].add(d)
        for path, d in bg_defaults.items():
            declared.setdefault(path, set()).add(d)
        given = dict(tree_leaves(spec['initial']))
        own_init = {}
        if spec['entry'] == 'composite':
            for p in spec['procs']:
                wmap = {tuple(v): tuple(n) for v, n in p['W']}
                for view, val in tree_leaves(p.get('init') or {}):
                    own_init.setdefault(wmap[view], set()).add(val)
        multi = 0
        for node, defaults in declared.items():
            got = getp(whole, list(node), KeyError)
            if got is KeyError:
                res.fail('missing', 'declared variable %r does not exist after '
                         'construction' % (node,), 'store.py:generate')
                return res
            if len(defaults) > 1 or sum(
                    1 for p in spec['procs'] for v, n in p['W']
                    if tuple(n) == node) > 1:
                multi += 1
            if node in given and not isinstance(given[node], dict):
                if got != given[node] or type(got) != type(given[node]):
                    res.fail('initial', 'node %r holds %r, initial state says '
                             '%r (defaults %r)' % (node, got, given[node],
                                                   sorted(defaults)),
                             'store.py:set_value')
                    return res
            elif node in own_init:
                if not isin(got, own_init[node]):
                    res.fail('process_initial', 'node %r holds %r, the '
                             'process\'s initial_state() says %r'
                             % (node, got, sorted(own_init[node])),
                             'composer.py:_get_composite_state_recur')
                    return res
            else:
                if not isin(got, defaults):
                    res.fail('default', 'node %r holds %r, declared defaults '
                             '%r, no initial value' % (node, got,
                                                       sorted(defaults)),
                             'store.py:apply_defaults')
                    return res
        # undeclared content of the initial state: the statement is silent
        # (it is ignored, or kept as the value of an otherwise empty _path
        # node) - counted, never flagged
        for path, val in tree_leaves(whole):
            if val is not None and val != {} and path not in declared:
                res.label('undeclared_value_kept')
        deep_partial = any(len(p) >= 2 for p in given)
        glob_child = 'glob' in labs and bool(spec['collections'])
        res.nontrivial = multi > 0 or glob_child or deep_partial
        # Composite.initial_state() / default_state()
        if spec['entry'] == 'composite' and 'glob' not in labs:
            check_composite_states(spec, res, comp)
    except Exception as e:
        if innermost_is_harness(e):
            raise
        res.violations.append(exc_violation(e))
    finally:
        ctx.close()
    return res


def check_composite_states(spec, res, comp):
    init = comp.initial_state()
    dflt = comp.default_state()
    # a call that passes an explicit initial state through the config must
    # not change what later calls return
    nodes = [tuple(n) for p in spec['procs'] for v, n in p['W']][:3]
    for node in nodes:
        cfg_state = {}
        put(cfg_state, list(node), 424242)
        with_cfg = comp.initial_state({'initial_state': cfg_state})
        if getp(with_cfg, list(node), KeyError) != 424242:
            # the state given in the call wins over the composite's own
            # state, a process's initial_state() and the defaults
            res.fail('composite.initial_state.explicit', 'initial_state('
                     '{"initial_state": %r}) holds %r at %r'
                     % (cfg_state, getp(with_cfg, list(node), 'MISSING'),
                        node), 'composer.py:initial_state')
            return
        again = comp.initial_state()
        d = deq(again, init)
        if d:
            res.fail('composite.initial_state.leak', 'after initial_state('
                     '{"initial_state": %r}) a plain initial_state() call '
                     'returns something else than before: %s' % (cfg_state, d),
                     'composer.py:initial_state')
            return
        res.label('composite.initial_state.repeated')
    placed = {}
    clash = set()
    for p in spec['procs']:
        wmap = {tuple(v): tuple(n) for v, n in p['W']}
        for view, val in tree_leaves(p.get('init') or {}):
            node = wmap[view]
            if node in placed and placed[node] != val:
                clash.add(node)
            placed[node] = val
    given = dict(tree_leaves(spec['initial']))
    for node, val in placed.items():
        if node in clash:
            continue
        g = given.get(node, KeyError)
        want = val if g is KeyError or isinstance(g, dict) else g
        got = getp(init, list(node), KeyError)
        if got != want:
            res.fail('composite.initial_state', 'initial_state() holds %r at '
                     '%r, expected %r (process initial %r, explicit state %r)'
                     % (got, node, want, val, given.get(node)),
                     'composer.py:_get_composite_state_recur')
            return
    for p in spec['procs']:
        for view, node in p['W']:
            d = getp(p['schema'], view, {})
            d = d.get('_default') if isinstance(d, dict) else None
            if d is None:
                continue
            got = getp(dflt, list(node), KeyError)
            others = [getp(q['schema'], v2, {}).get('_default')
                      for q in spec['procs'] for v2, n2 in q['W']
                      if n2 == node]
            if spec['background']:
                continue
            if not isin(got, others):
                res.fail('composite.default_state', 'default_state() holds %r '
                         'at %r, declared defaults %r' % (got, node, others),
                         'composer.py:_get_composite_state_recur')
                return


SIGNATURES = {}

"""C05  Steps run once per phase, after process updates, in dependency order.

Spec: {'depth': 0..2, 'flow_steps': n, 'edges': [[dep, step], ...] (dep<step),
       'derivers_p': k1 (listed under processes), 'derivers_s': k2 (listed
       under steps without flow entry), 'order': permutation of flow step
       indices giving the *declaration* order, 'ticks': [timesteps],
       'calls': [...], 'dotdot': bool}
"""
from hypothesis import strategies as st

from vv import kit
from vivarium.core.process import Process
from vv.core import Result, exc_violation, innermost_is_harness
from vv.ref import layers as ref

ID = 'C05'
CASES = {'quick': 500, 'thorough': 30000}
HANG_IS_VIOLATION = True
RULE = ('Hypothesis draws a random DAG over 1..7 flow steps (drawn edge '
        'density: chains, diamonds, forests), 0..2 legacy derivers listed under '
        '`processes` and 0..2 under `steps` without flow entry, the whole '
        'compartment nested at depth 0..2 (dependencies are sibling-relative, '
        'the tick variable is reached through ".." paths), 1..2 ticking '
        'processes with different timesteps and 1..3 run_for/update calls; '
        'in a third of the cases one flow step also issues an _add in every '
        'phase (a structural update from inside a layer). '
        'Every step stamps done/<name> := tick (the number of process updates '
        'applied so far) and records the stamps it sees. Oracle over the event '
        'log: one phase at construction and one after every batch, never in '
        'between; every step exactly once per phase with timestep 0; a step '
        'sees the current-phase stamp of all transitive dependencies and the '
        'previous-phase stamp of the steps of its own reference layer '
        '(longest-path layering, vv/ref/layers.py); derivers first, one at a '
        'time, in declaration order within their dictionary; every step sees '
        'tick == applied process updates. Non-trivial = DAG depth >=2 with a '
        'layer of width >=2, or derivers together with flow steps, or nesting; '
        'distinct = spec hash. One case in eight is a reflow case: a '
        'compartment of 2..5 flow steps is deleted by one process and '
        're-generated under the same key by another in the same batch, same '
        'step names, a second drawn DAG; every step must run once per phase '
        'and see the current stamp of each transitive dependency under the '
        'flow in force (non-trivial = second DAG non-empty and different).')
ASSUMPTIONS = [
    'the relative order of derivers listed under `processes` and under `steps` '
    'is not asserted (statement: declaration order; two dictionaries)',
    'flows whose dependencies contain ".." are rejected at construction by '
    '_validate_steps_and_flow: counted as rejected input, not a violation',
]


@st.composite
def strategy_(draw, tier):
    if draw(st.integers(0, 7)) == 0:
        # 'reflow': a compartment is deleted by one process and re-generated
        # under the same key by another one in the same batch, with the same
        # step names but another flow (no step phase lies in between)
        n = draw(st.integers(2, 5))

        def dag():
            perm = draw(st.permutations(list(range(n))))
            return [[perm[a], perm[b]] for b in range(n) for a in range(b)
                    if draw(st.integers(0, 2)) > 0]
        return {'kind': 'reflow', 'n': n, 'edges1': dag(), 'edges2': dag(),
                'when': draw(st.integers(1, 3)),
                'after': draw(st.integers(1, 3)),
                'op': draw(st.sampled_from(['update', 'run_for'])),
                'chunked': draw(st.booleans())}
    n = draw(st.integers(1, 7))
    density = draw(st.sampled_from([0.0, 0.2, 0.4, 0.7, 1.0]))
    edges = []
    for j in range(n):
        for i in range(j):
            if draw(st.floats(0, 1)) < density:
                edges.append([i, j])
    order = draw(st.permutations(list(range(n))))
    ticks = draw(st.lists(st.sampled_from([0.5, 1.0, 1.5, 2.0]), min_size=1,
                          max_size=2, unique=True))
    ncalls = draw(st.integers(1, 3))
    calls = [{'op': draw(st.sampled_from(['update', 'run_for'])),
              'interval': draw(st.sampled_from([1.0, 2.0, 3.0, 4.5])),
              'force': draw(st.booleans())} for _ in range(ncalls)]
    for c in calls:
        if c['op'] == 'update':
            c['force'] = True
    return {'depth': draw(st.integers(0, 2)), 'flow_steps': n, 'edges': edges,
            'derivers_p': draw(st.integers(0, 2)),
            'derivers_s': draw(st.integers(0, 2)),
            'order': list(order), 'ticks': ticks, 'calls': calls,
            'dotdot': draw(st.integers(0, 9)) == 0,
            # a process that always returns an empty update
            'empty_ts': draw(st.sampled_from([None, None, 0.5, 0.75, 1.25])),
            # one flow step also issues a structural update (_add) in every
            # phase after the first batch
            'spawner': draw(st.sampled_from([None, None] + list(range(n)))),
            # the last deriver of the `steps` dictionary lives in a sibling
            # compartment (declared after the others, stamping the same store)
            'sibling': draw(st.booleans())}


def strategy(tier):
    return strategy_(tier)


def nest(path, d):
    for seg in reversed(path):
        d = {seg: d}
    return d


def merge(a, b):
    for k, v in b.items():
        if k in a and isinstance(a[k], dict) and isinstance(v, dict):
            merge(a[k], v)
        else:
            a[k] = v
    return a


def build(spec, ctx):
    comp = tuple('c%d' % i for i in range(spec['depth']))
    up = ('..',) * spec['depth']
    fnames = ['f%d' % i for i in range(spec['flow_steps'])]
    dp = ['dp%d' % i for i in range(spec['derivers_p'])]
    ds = ['ds%d' % i for i in range(spec['derivers_s'])]
    allnames = fnames + dp + ds
    deps = {j: [] for j in range(spec['flow_steps'])}
    for i, j in spec['edges']:
        deps[j].append(i)

    spawner = spec.get('spawner')
    spawner = None if spawner is None else fnames[spawner]

    def mk(name):
        return kit.DoneStep({'name': name, 'run_id': ctx.run_id,
                             'all': allnames, 'spawn': name == spawner})
    step_topo = {'done': ('done',), 'clock': up + ('clock',)}
    processes = {}
    topology = {}
    for i, ts in enumerate(spec['ticks']):
        name = 't%d' % i
        processes[name] = kit.TickProcess({'name': name, 'run_id': ctx.run_id,
                                           'time_step': ts})
        topology[name] = {'clock': ('clock',)}
    if spec.get('empty_ts'):
        processes['e0'] = kit.TickProcess({'name': 'e0', 'run_id': ctx.run_id,
                                           'time_step': spec['empty_ts'],
                                           'empty': True})
        topology['e0'] = {'clock': ('clock',)}
    inner_p = {n: mk(n) for n in dp}
    inner_s = {}
    inner_flow = {}
    for idx in spec['order']:
        n = fnames[idx]
        inner_s[n] = mk(n)
        if spec['dotdot'] and spec['depth'] > 0 and deps[idx]:
            inner_flow[n] = [('..', comp[-1], fnames[d]) for d in deps[idx]]
        else:
            inner_flow[n] = [(fnames[d],) for d in deps[idx]]
    sib = None
    if spec.get('sibling') and len(ds) >= 2:
        sib = ds[-1]
    for n in ds:
        if n != sib:
            inner_s[n] = mk(n)
    inner_topo = {n: dict(step_topo) for n in allnames if n != sib}
    if spawner is not None:
        inner_topo[spawner]['pool'] = ('pool',)
    if inner_p:
        merge(processes, nest(comp, inner_p))
    steps = nest(comp, inner_s)
    flow = nest(comp, inner_flow)
    merge(topology, nest(comp, inner_topo))
    if sib is not None:
        sib_path = comp[:-1] + ('sib',)
        done = ('..', comp[-1], 'done') if comp else ('..', 'done')
        merge(steps, nest(sib_path, {sib: mk(sib)}))
        merge(topology, nest(sib_path, {sib: {
            'done': done,
            'clock': ('..',) * len(sib_path) + ('clock',)}}))
    return processes, steps, flow, topology, (fnames, dp, ds, deps)


class StructAt(Process):
    """Returns one given update for the store it is wired to, at the end of
    its `when`-th interval; empty updates otherwise."""
    defaults = {'when': 1, 'update': None, 'time_step': 1.0}

    def __init__(self, parameters=None):
        super().__init__(parameters)
        self.calls = 0

    def ports_schema(self):
        return {'root': {}}

    def next_update(self, timestep, states):
        self.calls += 1
        if self.calls == self.parameters['when']:
            return {'root': self.parameters['update']}
        return {}


def closure(n, edges):
    """Transitive dependencies for edges in any index order."""
    anc = {j: {i for i, jj in edges if jj == j} for j in range(n)}
    changed = True
    while changed:
        changed = False
        for j in range(n):
            new = set(anc[j])
            for i in anc[j]:
                new |= anc[i]
            if new != anc[j]:
                anc[j] = new
                changed = True
    return anc


def reflow_compartment(spec, ctx, edges):
    names = ['s%d' % i for i in range(spec['n'])]
    deps = {j: [] for j in range(spec['n'])}
    for i, j in edges:
        deps[j].append(i)
    return {
        'processes': {},
        'steps': {nm: kit.DoneStep({'name': nm, 'run_id': ctx.run_id,
                                    'all': names}) for nm in names},
        'flow': {names[j]: [(names[i],) for i in deps[j]]
                 for j in range(spec['n'])},
        'topology': {nm: {'done': ('done',), 'clock': ('..', 'clock')}
                     for nm in names},
        'initial_state': {}}


def run_reflow(spec):
    from vivarium.core.engine import Engine
    res = Result()
    ctx = kit.Context(t0=0, budget=5000)
    try:
        names = ['s%d' % i for i in range(spec['n'])]
        first = reflow_compartment(spec, ctx, spec['edges1'])
        second = reflow_compartment(spec, ctx, spec['edges2'])
        second['key'] = 'x'
        processes = {
            't0': kit.TickProcess({'name': 't0', 'run_id': ctx.run_id,
                                   'time_step': 1.0}),
            # declared, and so applied, in this order: delete, then generate
            'pdel': StructAt({'when': spec['when'],
                              'update': {'_delete': ['x']}}),
            'pgen': StructAt({'when': spec['when'],
                              'update': {'_generate': [second]}})}
        topology = {'t0': {'clock': ('clock',)}, 'pdel': {'root': ()},
                    'pgen': {'root': ()}, 'x': first['topology']}
        res.label('reflow')
        res.nontrivial = bool(spec['edges2']) and \
            sorted(map(tuple, spec['edges1'])) != \
            sorted(map(tuple, spec['edges2']))
        if res.nontrivial:
            res.label('reflow.same_paths_new_flow')
        engine = Engine(processes=processes, steps={'x': first['steps']},
                        flow={'x': first['flow']}, topology=topology,
                        display_info=False, emitter=kit.emitter_config(ctx))
        ctx.engine = engine
        total = spec['when'] + spec['after']
        chunks = [1.0] * total if spec['chunked'] else [float(total)]
        for c in chunks:
            if spec['op'] == 'update':
                engine.update(c)
            else:
                engine.run_for(c, force_complete=True)
        phases = []
        cur = []
        for ev in ctx.log:
            if ev[0] == 'emit' and ev[1] == 'configuration':
                continue
            cur.append(ev)
            if ev[0] == 'emit' and ev[1] == 'history':
                phases.append(cur)
                cur = []
        if len(phases) != total + 1:
            res.fail('reflow.phases', '%d step phases/rows, expected %d'
                     % (len(phases), total + 1), 'engine.py:run_for')
            return res
        tick = 0
        for k, evs in enumerate(phases):
            tick += sum(1 for e in evs if e[0] == 'apply' and e[1] == 'tick')
            edges = spec['edges1'] if tick < spec['when'] else spec['edges2']
            anc = closure(spec['n'], edges)
            runs = [e for e in evs if e[0] == 'step']
            if sorted(e[1] for e in runs) != names:
                res.fail('reflow.once', 'phase %d (tick %d): steps run %r, '
                         'expected each of %r exactly once'
                         % (k, tick, [e[1] for e in runs], names),
                         'engine.py:run_steps')
                return res
            for e in runs:
                i = names.index(e[1])
                for d in sorted(anc[i]):
                    if e[5][names[d]] != tick:
                        res.fail('reflow.dependency', 'phase %d (tick %d, flow '
                                 '%s the re-generation): %s depends on %s but '
                                 'saw its stamp %r'
                                 % (k, tick, 'before' if tick < spec['when']
                                    else 'after', e[1], names[d],
                                    e[5][names[d]]), 'engine.py:run_steps')
                        return res
    except kit.PollBudgetExceeded as e:
        res.fail('nontermination', str(e))
    except Exception as e:
        if innermost_is_harness(e):
            raise
        res.violations.append(exc_violation(e))
    finally:
        ctx.close()
    return res


def run_case(spec):
    if spec.get('kind') == 'reflow':
        return run_reflow(spec)
    from vivarium.core.engine import Engine
    res = Result()
    ctx = kit.Context(t0=0, budget=5000)
    try:
        processes, steps, flow, topology, (fnames, dp, ds, deps) = build(spec, ctx)
        layer = ref.longest_path_layers(spec['flow_steps'], spec['edges'])
        anc = ref.ancestors(spec['flow_steps'], spec['edges'])
        width = {}
        for i, l in layer.items():
            width[l] = width.get(l, 0) + 1
        deep = max(layer.values()) >= 1 and any(w >= 2 for w in width.values())
        if deep:
            res.label('dag.deep_wide')
        if (dp or ds) and fnames:
            res.label('derivers+flow')
        if spec['depth']:
            res.label('nested.%d' % spec['depth'])
        if spec.get('spawner') is not None:
            res.label('structural_update_in_layer')
        if spec.get('sibling') and len(ds) >= 2:
            res.label('deriver_in_sibling_compartment')
        uses_dotdot = spec['dotdot'] and spec['depth'] > 0 and spec['edges']
        if uses_dotdot:
            res.label('flow.dotdot_dependency')
        res.nontrivial = deep or bool((dp or ds) and fnames) or spec['depth'] > 0
        try:
            engine = Engine(processes=processes, steps=steps, flow=flow,
                            topology=topology, display_info=False,
                            emitter=kit.emitter_config(ctx))
        except ValueError as e:
            if uses_dotdot and 'Unknown dependency' in str(e):
                res.rejected = True
                return res
            raise
        ctx.engine = engine
        for call in spec['calls']:
            if call['op'] == 'update':
                engine.update(call['interval'])
            else:
                engine.run_for(call['interval'], force_complete=call['force'])
        check_log(spec, res, ctx, fnames, dp, ds, deps, layer, anc)
    except kit.PollBudgetExceeded as e:
        res.fail('nontermination', str(e))
    except Exception as e:
        if innermost_is_harness(e):
            raise
        res.violations.append(exc_violation(e))
    finally:
        ctx.close()
    return res


def check_log(spec, res, ctx, fnames, dp, ds, deps, layer, anc):
    allsteps = set(fnames) | set(dp) | set(ds)
    # split the log into phases: a phase ends with a history emit
    phases = []          # each: {'applies': n tick applies, 'steps': [...], ...}
    cur = {'events': []}
    for ev in ctx.log:
        if ev[0] == 'emit' and ev[1] == 'configuration':
            continue
        cur['events'].append(ev)
        if ev[0] == 'emit' and ev[1] == 'history':
            phases.append(cur)
            cur = {'events': []}
    if any(e[0] in ('step', 'apply') for e in cur['events']):
        res.fail('phase.unemitted', 'steps or updates after the last emit: %r'
                 % ([e[:3] for e in cur['events']],))
        return
    # a phase (and a row) at time 0 and at the end of every interval of every
    # process, nowhere else: interval ends = running sums of the timesteps
    # handed to each process (intervals are contiguous from time 0)
    ends = set()
    acc = {}
    for ev in ctx.log:
        if ev[0] == 'invoke':
            acc[ev[1]] = acc.get(ev[1], 0) + ev[3]
            ends.add(acc[ev[1]])
    final = ctx.engine.global_time if ctx.engine is not None else None
    want_times = [0] + sorted(t for t in ends if final is None or t <= final)
    got_times = [ph['events'][-1][3].get('time') for ph in phases]
    if got_times != want_times:
        res.fail('phase.times', 'step phases/rows at times %r, process '
                 'intervals end at %r' % (got_times, want_times),
                 'engine.py:run_for')
        return
    tick = 0
    prev_stamp = {n: -1 for n in allsteps}
    for k, ph in enumerate(phases):
        evs = ph['events']
        # structure: (poll/invoke)* (tick applies)+ (step | done-apply)* emit
        seen_step = False
        n_tick = 0
        for e in evs:
            if e[0] == 'apply' and e[1] == 'tick':
                if seen_step:
                    res.fail('phase.order', 'phase %d: a process update was '
                             'applied after a step had run' % k,
                             'engine.py:_send_updates')
                    return
                n_tick += 1
            elif e[0] == 'step':
                seen_step = True
            elif e[0] == 'invoke' and seen_step:
                res.fail('phase.order', 'phase %d: a process was invoked in the '
                         'middle of a step phase' % k)
                return
        if k == 0 and n_tick:
            res.fail('phase.initial', 'updates applied before the initial phase')
            return
        if k > 0 and n_tick == 0:
            res.label('phase.empty_updates_only')
        tick += n_tick
        runs = [e for e in evs if e[0] == 'step']
        names = [e[1] for e in runs]
        if sorted(names) != sorted(allsteps):
            res.fail('phase.once', 'phase %d (tick %d): steps run %r, expected '
                     'each of %r exactly once' % (k, tick, names,
                                                  sorted(allsteps)),
                     'engine.py:run_steps')
            return
        pos = {e[1]: i for i, e in enumerate(runs)}
        # position of the application of each stamp
        for e in runs:
            name, ts_arg, seen_tick, seen = e[1], e[3], e[4], e[5]
            if ts_arg != 0:
                res.fail('step.timestep', '%s got timestep %r' % (name, ts_arg))
                return
            if seen_tick != tick:
                res.fail('step.stale_tick', 'phase %d: %s saw tick %r, %d '
                         'process updates had been applied' % (k, name,
                                                               seen_tick, tick),
                         'engine.py:_send_updates')
                return
            if name in fnames:
                i = fnames.index(name)
                for d in range(len(fnames)):
                    dn = fnames[d]
                    if d in anc[i]:
                        if seen[dn] != tick:
                            res.fail('dependency', 'phase %d (tick %d): %s '
                                     'depends on %s but saw its stamp %r'
                                     % (k, tick, name, dn, seen[dn]),
                                     'engine.py:run_steps')
                            return
                    elif d != i and layer[d] == layer[i]:
                        if seen[dn] != prev_stamp[dn]:
                            res.fail('layer.snapshot', 'phase %d (tick %d): %s '
                                     'and %s are in one layer but %s saw stamp '
                                     '%r (previous phase: %r)'
                                     % (k, tick, name, dn, name, seen[dn],
                                        prev_stamp[dn]), 'engine.py:run_steps')
                            return
                # derivers run before every flow step
                for dn in dp + ds:
                    if seen[dn] != tick:
                        res.fail('deriver.first', 'phase %d: flow step %s did '
                                 'not see deriver %s done (stamp %r, tick %d)'
                                 % (k, name, dn, seen[dn], tick),
                                 'engine.py:run_steps')
                        return
            else:
                group = dp if name in dp else ds
                gi = group.index(name)
                for earlier in group[:gi]:
                    if seen[earlier] != tick:
                        res.fail('deriver.order', 'phase %d: deriver %s ran '
                                 'before %s was applied (declaration order)'
                                 % (k, name, earlier), 'engine.py:run_steps')
                        return
                for later in group[gi + 1:]:
                    if seen[later] == tick and tick != prev_stamp[later]:
                        res.fail('deriver.order', 'phase %d: deriver %s saw the '
                                 'stamp of the later-declared %s' % (k, name,
                                                                     later),
                                 'engine.py:run_steps')
                        return
        prev_stamp = {n: tick for n in allsteps}
        last_tick = tick


SIGNATURES = {}

"""C07  A process sees exactly its declared variables, from the current hierarchy.

Two kinds of case:
  {'kind': 'static', ...wiring spec (vv.hier)..., 'ticks': n}
  {'kind': 'struct', ...structural history spec (vv.struct)...}
Oracle: at every calculate_timestep / update_condition / next_update call the
states argument must equal the projection, through the generator's own wiring
map W, of engine.state.get_value() taken inside the same callback.
"""
import copy

from hypothesis import strategies as st

from vv import kit, hier
from vv.core import Result, exc_violation, innermost_is_harness
from vv.util import deq, getp, put
from vv.props import c06

ID = 'C07'
CASES = {'quick': 500, 'thorough': 30000}
RULE = ('(static) hierarchy-first wiring specs as in C06 (plain, "..", _path '
        'split, rename, leaf, glob with/without sub-topology, aliasing, '
        'output-only ports) with a background process declaring every other '
        'variable of the stores (so masking is needed), run for 1..3 ticks with '
        'increments; (struct) collections viewed through glob ports by 1..3 '
        'viewers with different timesteps and sub-schemas (processes, or steps '
        'in the operator\'s layer / a later layer / flow-less derivers) while '
        'an operator process or step issues a generated history of _add/_delete/_move/_generate/'
        '_divide. At every callback the states argument is compared for exact '
        'shape and values with the projection of the hierarchy snapshot taken '
        'in that same callback. Non-trivial = masking needed (store holds '
        'undeclared variables) or a structural op between two invocations of '
        'one viewer; distinct = spec hash.')
ASSUMPTIONS = [
    'the projection uses the generator\'s wiring map W and the live hierarchy '
    'values (get_value), never schema_topology/topology_view',
]


@st.composite
def strategy_(draw, tier):
    from vv import struct
    if draw(st.integers(0, 9)) == 0:
        return draw(keys_only())
    if draw(st.integers(0, 2)) == 0:
        spec = draw(hier.wirings())
        spec['kind'] = 'static'
        spec['ticks'] = draw(st.integers(1, 3))
        return spec
    spec = draw(struct.histories(viewers=True, residents=draw(st.booleans()),
                                 anchor_ok=True, none_ok=True,
                                 replace_ok=True))
    spec['kind'] = 'struct'
    return spec


@st.composite
def keys_only(draw):
    """A collection that every process sees through a keys-only glob port
    ('*': {}), as division / engulfing processes do: the operator adds and
    deletes children, the watchers must see exactly the current keys."""
    keys = ['c%d' % i for i in range(8)]
    init = draw(st.lists(st.sampled_from(keys[:4]), min_size=1, max_size=3,
                         unique=True))
    live, fresh = set(init), [k for k in keys if k not in init]
    ticks = []
    for _ in range(draw(st.integers(1, 4))):
        batch, freed = [], []
        for _ in range(draw(st.integers(1, 2))):
            if fresh and (not live or draw(st.booleans())):
                k = fresh.pop(0)
                batch.append({'op': 'add', 'key': k})
                live.add(k)
            elif live:
                # the initial children stay (a declaring process is wired
                # into them); added ones may be deleted again
                cand = sorted(live - set(init) - {b['key'] for b in batch})
                if not cand:
                    break
                k = draw(st.sampled_from(cand))
                batch.append({'op': 'delete', 'key': k})
                live.discard(k)
                freed.append(k)
        fresh.extend(freed)
        ticks.append(batch)
    watchers = [{'name': 'W%d' % i,
                 'ts': draw(st.sampled_from([1.0, 0.5, 2.0])),
                 'as_step': draw(st.booleans())}
                for i in range(draw(st.integers(1, 2)))]
    return {'kind': 'keysonly', 'init': sorted(init), 'ticks': ticks,
            'watchers': watchers}


def run_keysonly(spec, res):
    from vivarium.core.engine import Engine
    ctx = kit.Context()
    ctx.snap = True
    try:
        script = []
        for batch in spec['ticks']:
            upd = {}
            for op in batch:
                if op['op'] == 'add':
                    upd.setdefault('_add', []).append(
                        {'key': op['key'], 'state': {}})
                else:
                    upd.setdefault('_delete', []).append(op['key'])
            script.append({'pool': upd})
        glob = {'pool': {'*': {}}}
        processes = {'OP': kit.WireProcess({
            'name': 'OP', 'run_id': ctx.run_id, 'schema': copy.deepcopy(glob),
            'script': script, 'time_step': 1.0})}
        topology = {'OP': {'pool': ('pool',)}}
        # the initial children are real compartments: each holds a variable
        # that a separate process declares through an ordinary port
        processes['DECL'] = kit.WireProcess({
            'name': 'DECL', 'run_id': 0, 'update': {}, 'time_step': 1.0,
            'schema': {'p_' + k: {'x': {'_default': 1, '_emit': True}}
                       for k in spec['init']}})
        topology['DECL'] = {'p_' + k: ('pool', k) for k in spec['init']}
        steps, flow = {}, {}
        for w in spec['watchers']:
            params = {'name': w['name'], 'run_id': ctx.run_id, 'update': {},
                      'schema': copy.deepcopy(glob), 'time_step': w['ts']}
            if w['as_step']:
                steps[w['name']] = kit.WireStep(params)
                flow[w['name']] = []
            else:
                processes[w['name']] = kit.WireProcess(params)
            topology[w['name']] = {'pool': ('pool',)}
        kwargs = dict(processes=processes, topology=topology,
                      initial_state={},
                      display_info=False, emitter=kit.emitter_config(ctx))
        if steps:
            kwargs.update(steps=steps, flow=flow)
        engine = Engine(**kwargs)
        ctx.engine = engine
        for _ in range(len(spec['ticks']) + 1):
            engine.update(1)
        names = {w['name'] for w in spec['watchers']}
        n = 0
        for ev in ctx.log:
            if ev[0] in ('invoke', 'view.timestep', 'view.condition') \
                    and ev[1] in names and ev[6] is not None:
                want = {'pool': {k: {} for k in ev[6].get('pool', {})}}
                d = deq(ev[5], want)
                n += 1
                if d:
                    res.fail('view', '%s of %s at t=%r: states %r, the '
                             'collection holds %r: %s' % (
                                 ev[0], ev[1], ev[2], ev[5],
                                 sorted(ev[6].get('pool', {})), d),
                             'store.py:apply_update')
                    return
        res.nontrivial = any(op['op'] == 'add' for b in spec['ticks'] for op in b)
        if not n:
            res.fail('not_polled', 'no watcher callback recorded')
    finally:
        ctx.close()


def strategy(tier):
    return strategy_(tier)


def expected_view(p, whole):
    """Projection of the hierarchy snapshot through W for process p."""
    view = {}
    for port, s in p['schema'].items():
        if s != '**' and '_default' not in s:
            view[port] = {}
    globs = {tuple(g['view']): g for g in p['globs']}
    for port in p['outputs']:
        view[port] = {}
    done_globs = set()
    for viewpath, node in p['W']:
        if viewpath[0] in p['outputs']:
            continue
        if (viewpath[0],) in globs:
            continue
        v = getp(whole, node, KeyError)
        put(view, viewpath, v)
    for gview, g in globs.items():
        if gview[0] in p['outputs']:
            continue
        coll = getp(whole, g['node'], {})
        sub = p['schema'][gview[0]]['*']
        subtopo = {}
        t = p['topology'].get(gview[0], [gview[0]])   # omitted: default
        if isinstance(t, dict):
            subtopo = t.get('*', {})
        out = {}
        for child, cval in coll.items():
            if isinstance(cval, str) and cval.startswith('<process'):
                continue
            entry = {}
            for var in sub:
                path = subtopo.get(var, [var])
                entry[var] = project(sub[var], getp(cval, path, KeyError))
            out[child] = entry
        put(view, list(gview), out)
    return view


def project(subschema, value):
    """Restrict a child's value to the declared (possibly nested) sub-schema."""
    if not isinstance(subschema, dict) or '_default' in subschema \
            or not isinstance(value, dict):
        return value
    return {k: project(s, value.get(k, KeyError))
            for k, s in subschema.items()}


def run_static(spec, res):
    from vivarium.core.engine import Engine
    labs = hier.labels(spec)
    res.label(*labs)
    ctx = kit.Context()
    ctx.snap = True
    try:
        processes, topology, incs = c06.build(spec, ctx)
        kwargs = dict(processes=processes, topology=topology,
                      initial_state=copy.deepcopy(spec['tree']),
                      display_info=False, emitter=kit.emitter_config(ctx))
        # a step that views, through a '**' port of its own, a branch that a
        # process views through '**' too, and writes into it in every phase:
        # the process must be handed the branch as the steps left it
        deep = [(p, port) for p in spec['procs']
                for port, sch in p['schema'].items() if sch == '**']
        step_branch = None
        if deep and spec.get('deep_step', True):
            p0, port0 = deep[0]
            pairs = [(v, n) for v, n in p0['W'] if v[0] == port0]
            if pairs:
                view0, node0 = pairs[0]
                branch = list(node0[:len(node0) - (len(view0) - 1)])
                leaf_rel = list(view0[1:])
                if branch and leaf_rel:
                    upd = {}
                    put(upd, ['d'] + leaf_rel, 1)
                    kwargs['steps'] = {'SW': kit.WireStep({
                        'name': 'SW', 'run_id': ctx.run_id,
                        'schema': {'d': '**'}, 'update': upd})}
                    kwargs['flow'] = {'SW': []}
                    topology['SW'] = {'d': tuple(branch)}
                    step_branch = branch
                    res.label('deep_port.step_writes_into_branch')
        engine = Engine(**kwargs)
        ctx.engine = engine
        # masking needed: some store touched by a port holds more variables
        # than the process declares there
        masking = spec['background'] or len(spec['procs']) > 1
        res.nontrivial = masking or 'output_port' in labs
        if masking:
            res.label('masking')
        for _ in range(spec['ticks']):
            engine.update(1)
        byname = {p['name']: p for p in spec['procs']}
        n = 0
        for ev in ctx.log:
            if ev[0] in ('invoke', 'view.timestep', 'view.condition') \
                    and ev[1] in byname:
                states, whole = ev[5], ev[6]
                want = expected_view(byname[ev[1]], whole)
                d = deq(states, want)
                n += 1
                if d:
                    res.fail('view', '%s of %s at t=%r: states %r, projection '
                             'of the hierarchy %r: %s' % (
                                 ev[0], ev[1], ev[2], states, want, d),
                             'store.py:schema_topology')
                    return
            elif step_branch is not None and ev[0] == 'invoke' \
                    and ev[1] == 'SW' and ev[6] is not None:
                want = {'d': getp(ev[6], step_branch, KeyError)}
                d = deq(ev[5], want)
                if d:
                    res.fail('view', 'step SW at t=%r: states %r, the branch '
                             '%r holds %r: %s' % (ev[2], ev[5], step_branch,
                                                  want, d),
                             'store.py:schema_topology')
                    return
        if n < 3 * spec['ticks']:
            res.fail('not_polled', 'only %d callbacks recorded' % n)
    finally:
        ctx.close()


def run_case(spec):
    res = Result()
    res.label('kind.' + spec['kind'])
    try:
        if spec['kind'] == 'static':
            run_static(spec, res)
        elif spec['kind'] == 'keysonly':
            run_keysonly(spec, res)
        else:
            from vv import struct
            struct.run_views(spec, res)
    except Exception as e:
        if innermost_is_harness(e):
            raise
        res.violations.append(exc_violation(e))
    return res


SIGNATURES = {}

"""C08  Updates are combined with the current value by the declared updater.

Spec:
 {'delivery': 'direct'|'multi'|'engine',
  'vars': [{'name','path':[...],'family':'num'|'merge'|'dictval'|'q',
            'kind':'int'|'float'|'arr_int'|'arr_float', 'updater': name|None,
            'init': raw, 'unit': str, 'declare_units': bool}, ...],
  'batch': [{name: {'v': raw, 'override': name|None, 'unit': str}}, ...]}
Oracle: vv.ref.updaters.fold, left to right over the batch.
"""
import copy

from hypothesis import strategies as st

from vv.core import Result, exc_violation, innermost_is_harness
from vv.ref import updaters as ref
from vv.util import deq, nest, put, getp

ID = 'C08'
CASES = {'quick': 1000, 'thorough': 80000}
FUZZ_RUNS = 40000        # thorough tier: atheris workers, -runs per worker
RULE = ('Hypothesis draws 1..5 variables at distinct paths (depth 1..3 below one '
        'port), each from a family: numeric (int, dyadic float, int/float '
        'numpy arrays) with updater default/accumulate/set/null/'
        'nonnegative_accumulate/user function, flat dict with merge, dict of '
        'dicts with dict_value (_add/_delete/key updates generated against the '
        'model key set), quantity with default/accumulate/set and updates in a '
        'compatible different unit; a batch of 1..3 updates, each mentioning a '
        'drawn subset of the variables, some with a per-update '
        '{_value,_updater} override; delivered as separate Store.apply_update '
        'calls, as one update with _multi_update lists, or by an Engine tick '
        'with one process per update. Non-trivial = >=2 updates hit one '
        'variable, or an override, or a unit conversion, or a non-scalar value; '
        'distinct = spec hash.')
ASSUMPTIONS = [
    'merge is exercised on flat dictionaries only (nested merge semantics are '
    'ambiguous between guide and docstring)',
    'dict_value: the update-unmodified clause is checked per update only when a '
    'single update hits the variable (later updates legitimately edit states '
    'added earlier)',
    'unit magnitudes compared with relative tolerance 1e-12 (relative to the '
    'largest converted term when the terms cancel)',
]

PATHS = [['a'], ['b'], ['t', 'a'], ['t', 'b'], ['t', 'u', 'a'], ['w', 'a'],
         ['w', 'b']]
UNIT_GROUPS = [['gram', 'milligram', 'kilogram'], ['second', 'minute', 'hour'],
               ['liter', 'milliliter']]


# ------------------------------------------------------------------ values

def unit_of(name):
    from vivarium.library.units import units
    return units(name).units


def mk(var, raw, unit=None):
    import numpy as np
    fam = var['family']
    if fam == 'num':
        k = var['kind']
        if k == 'arr_int':
            return np.array(raw, dtype=np.int64)
        if k == 'arr_float':
            return np.array(raw, dtype=np.float64)
        return raw
    if fam == 'q':
        return raw * unit_of(unit or var['unit'])
    return copy.deepcopy(raw)


def user_updater(cur, new):
    return cur * 2 + new


def updater_decl(var):
    u = var['updater']
    if u == 'affine':
        return user_updater
    return u


def schema_for(spec):
    schema = {}
    for var in spec['vars']:
        decl = {'_default': mk(var, var['init'], var.get('init_unit')),
                '_emit': True}
        u = updater_decl(var)
        if u is not None:
            decl['_updater'] = u
        if var['family'] == 'q' and var.get('declare_units'):
            decl['_units'] = unit_of(var['unit'])
        put(schema, var['path'], decl)
    return schema


def make_reader(spec):
    """A second declarer, listed after the writers, that names only the
    default of every variable (as a process that merely reads it does): the
    declared updaters and units must survive this second configuration."""
    from vivarium.core.process import Process

    class Reader(Process):
        def ports_schema(self):
            schema = {}
            for var in spec['vars']:
                put(schema, var['path'], {
                    '_default': mk(var, var['init'], var.get('init_unit'))})
            return {'s': schema}

        def next_update(self, timestep, states):
            return {}
    return Reader({'name': 'zz_reader'})


def update_value(var, entry):
    v = mk(var, entry['v'], entry.get('unit'))
    if entry.get('override'):
        return {'_value': v, '_updater': entry['override']}
    return v


def make_process(spec, index):
    from vivarium.core.process import Process

    class Upd(Process):
        def ports_schema(self):
            return {'s': schema_for(spec)}

        def next_update(self, timestep, states):
            return {'s': build_update(spec, index)}
    return Upd({'name': 'p%d' % index})


def build_update(spec, index):
    byname = {v['name']: v for v in spec['vars']}
    upd = {}
    for name, entry in spec['batch'][index].items():
        put(upd, byname[name]['path'], update_value(byname[name], entry))
    return upd


# ------------------------------------------------------------------ reference

def expected_final(spec):
    """-> {name: expected python/numpy value or ('q', magnitude, unit)}"""
    out = {}
    for var in spec['vars']:
        fam = var['family']
        if fam == 'q':
            cur = float(var['init']) if isinstance(var['init'], float) else var['init']
            if var.get('init_unit'):
                # the value starts out in another compatible unit
                cur = ref.convert(cur, var['init_unit'], var['unit'])
        else:
            cur = mk(var, var['init'])
        for upd in spec['batch']:
            if var['name'] not in upd:
                continue
            entry = upd[var['name']]
            u = entry.get('override') or var['updater']
            if fam == 'q':
                uv = ref.convert(entry['v'], entry.get('unit') or var['unit'],
                                 var['unit'])
            else:
                uv = mk(var, entry['v'])
            cur = ref.fold(u, cur, uv)
        out[var['name']] = cur
    return out


# ------------------------------------------------------------------ run

def classify(spec, res):
    hits = {}
    for upd in spec['batch']:
        for name, entry in upd.items():
            hits[name] = hits.get(name, 0) + 1
            if entry.get('override'):
                res.label('override')
            if entry.get('unit'):
                res.label('unit.converted')
    if spec.get('reader'):
        res.label('second_declarer_without_updater')
    if any(v.get('init_unit') for v in spec['vars']):
        res.label('unit.initial_value_in_other_unit')
    if any(n >= 2 for n in hits.values()):
        res.label('batch.multi_hit')
    for var in spec['vars']:
        res.label('updater.%s' % (var['updater'] or 'default'))
        if var['family'] != 'num' or var['kind'].startswith('arr'):
            res.label('nonscalar')
        if var['name'] not in hits:
            res.label('unmentioned')
    res.label('delivery.' + spec['delivery'])
    res.nontrivial = bool(res.labels & {'override', 'unit.converted',
                                        'batch.multi_hit', 'nonscalar'})


def run_case(spec):
    from vivarium.core.store import generate_state
    from vivarium.core.engine import Engine
    res = Result()
    classify(spec, res)
    byname = {v['name']: v for v in spec['vars']}
    want = expected_final(spec)
    try:
        if spec['delivery'] == 'engine':
            procs = {'p%d' % i: make_process(spec, i)
                     for i in range(len(spec['batch']))}
            if spec.get('reader'):
                procs['zz_reader'] = make_reader(spec)
            topo = {name: {'s': ('s',)} for name in procs}
            eng = Engine(processes=procs, topology=topo, display_info=False)
            store = eng.state
        else:
            procs = {'p0': make_process(spec, 0)}
            if spec.get('reader'):
                procs['zz_reader'] = make_reader(spec)
            store = generate_state(procs, {n: {'s': ('s',)} for n in procs}, {})
        nodes = {v['name']: store.get_path(('s',) + tuple(v['path']))
                 for v in spec['vars']}
        before = {n: (id(node.value), copy.deepcopy(node.value))
                  for n, node in nodes.items()}
        # initial values
        for var in spec['vars']:
            d = deq(nodes[var['name']].value,
                    mk(var, var['init'], var.get('init_unit')))
            if d:
                res.fail('initial', '%s: %s' % (var['name'], d))
                return res
        hits = {}
        for upd in spec['batch']:
            for name in upd:
                hits[name] = hits.get(name, 0) + 1
        if spec['delivery'] == 'direct':
            for i in range(len(spec['batch'])):
                u = {'s': build_update(spec, i)}
                if spec.get('empty_struct'):
                    u['s']['_add'] = []
                    u['s']['_delete'] = []
                snap = copy.deepcopy(u)
                store.apply_update(u)
                check_unmodified(res, spec, byname, hits, u, snap, i)
        elif spec['delivery'] == 'multi':
            merged = {}
            for var in spec['vars']:
                vals = [update_value(var, upd[var['name']])
                        for upd in spec['batch'] if var['name'] in upd]
                if len(vals) == 1:
                    put(merged, var['path'], vals[0])
                elif vals:
                    put(merged, var['path'], {'_multi_update': vals})
            u = {'s': merged}
            if spec.get('empty_struct'):
                u['s']['_add'] = []
                u['s']['_delete'] = []
            snap = copy.deepcopy(u)
            store.apply_update(u)
            check_unmodified(res, spec, byname, hits, u, snap, 0)
        else:
            eng.update(1)
        # final values
        for var in spec['vars']:
            name = var['name']
            got = nodes[name].value
            if store.get_path(('s',) + tuple(var['path'])) is not nodes[name]:
                res.fail('node_replaced', name)
            if var['family'] == 'q':
                from pint import Quantity
                if not isinstance(got, Quantity):
                    res.fail('units.lost', '%s holds %r' % (name, got))
                    continue
                if name not in hits and var.get('init_unit'):
                    continue    # never updated: still as it was declared
                if got.units != unit_of(var['unit']):
                    res.fail('units.wrong', '%s holds %r, declared %s'
                             % (name, got, var['unit']))
                    continue
                d = deq(got.magnitude, want[name], rel=1e-12)
                if d and isinstance(want[name], (int, float)) and \
                        isinstance(got.magnitude, (int, float)):
                    # sums of converted terms that cancel: the tolerance is
                    # relative to the largest term, not to the (tiny) result
                    terms = [abs(ref.convert(var['init'],
                                             var.get('init_unit') or var['unit'],
                                             var['unit']))]
                    for upd in spec['batch']:
                        if name in upd:
                            e = upd[name]
                            terms.append(abs(ref.convert(
                                e['v'], e.get('unit') or var['unit'],
                                var['unit'])))
                    if abs(got.magnitude - want[name]) <= 1e-12 * max(terms):
                        d = None
            else:
                d = deq(got, want[name])
            if d:
                res.fail('value', '%s (updater %s, init %r, updates %r): %s'
                         % (name, var['updater'], var['init'],
                            [u[name] for u in spec['batch'] if name in u], d))
            if name not in hits:
                if id(got) != before[name][0]:
                    res.fail('untouched.identity', name)
                if deq(got, before[name][1]):
                    res.fail('untouched.value', name)
    except Exception as e:
        if innermost_is_harness(e):
            raise
        res.violations.append(exc_violation(e))
    return res


def check_unmodified(res, spec, byname, hits, u, snap, i):
    if set(u['s']) != set(snap['s']):
        res.fail('update.modified', 'update %d: keys %r became %r'
                 % (i, sorted(snap['s']), sorted(u['s'])))
    for path, node in walk_vars(spec):
        name = node['name']
        if node['family'] == 'dictval' and hits.get(name, 0) > 1:
            continue
        a, b = getp(u['s'], path), getp(snap['s'], path)
        if a is KeyError:
            continue
        d = deq(a, b)
        if d:
            res.fail('update.modified', 'update %d for %s was modified: %s'
                     % (i, name, d))


def walk_vars(spec):
    return [(v['path'], v) for v in spec['vars']]


# ------------------------------------------------------------------ strategy

dyadic = st.integers(-40, 40).map(lambda k: k / 8)


@st.composite
def num_var(draw, name, path):
    kind = draw(st.sampled_from(['int', 'int', 'float', 'arr_int', 'arr_float']))
    updater = draw(st.sampled_from([None, 'accumulate', 'set', 'null',
                                    'nonnegative_accumulate', 'affine']))
    n = draw(st.integers(1, 3))
    if kind == 'int':
        gen = st.integers(-20, 20)
    elif kind == 'float':
        gen = dyadic
    elif kind == 'arr_int':
        gen = st.lists(st.integers(-9, 9), min_size=n, max_size=n)
    else:
        gen = st.lists(dyadic, min_size=n, max_size=n)
    return ({'name': name, 'path': path, 'family': 'num', 'kind': kind,
             'updater': updater, 'init': draw(gen)}, gen)


@st.composite
def strategy_(draw, tier):
    nvars = draw(st.integers(1, 5))
    paths = draw(st.permutations(PATHS))[:nvars]
    nupd = draw(st.integers(1, 3))
    batch = [dict() for _ in range(nupd)]
    vars_ = []
    for i, path in enumerate(paths):
        name = 'v%d' % i
        fam = draw(st.sampled_from(['num', 'num', 'num', 'merge', 'dictval', 'q']))
        mention = [draw(st.integers(0, 3)) > 0 for _ in range(nupd)]
        if fam == 'num':
            var, gen = draw(num_var(name, list(path)))
            for j in range(nupd):
                if mention[j]:
                    entry = {'v': draw(gen)}
                    if draw(st.integers(0, 4)) == 0:
                        entry['override'] = draw(st.sampled_from(
                            ['set', 'accumulate', 'null']))
                    batch[j][name] = entry
        elif fam == 'merge':
            keys = ['k1', 'k2', 'k3', 'k4']
            dgen = st.dictionaries(st.sampled_from(keys), st.integers(0, 9),
                                   max_size=3)
            var = {'name': name, 'path': list(path), 'family': 'merge',
                   'kind': 'dict', 'updater': 'merge', 'init': draw(dgen)}
            for j in range(nupd):
                if mention[j]:
                    batch[j][name] = {'v': draw(dgen)}
        elif fam == 'dictval':
            init = draw(st.dictionaries(
                st.sampled_from(['e1', 'e2', 'e3']),
                st.dictionaries(st.sampled_from(['m', 'n']), st.integers(0, 9),
                                max_size=2), max_size=3))
            var = {'name': name, 'path': list(path), 'family': 'dictval',
                   'kind': 'dd', 'updater': 'dict_value', 'init': init}
            keys = set(init)
            fresh = 0
            for j in range(nupd):
                if not mention[j]:
                    continue
                upd = {}
                touched = set()
                if draw(st.booleans()):
                    fresh += 1
                    k = 'new%d' % fresh
                    upd['_add'] = [{'key': k, 'state': {'m': draw(st.integers(0, 9))}}]
                    keys_after_add = keys | {k}
                    touched.add(k)
                else:
                    keys_after_add = set(keys)
                free = sorted(keys - touched)
                if free and draw(st.booleans()):
                    k = draw(st.sampled_from(free))
                    upd[k] = {draw(st.sampled_from(['m', 'n', 'o'])):
                              draw(st.integers(0, 9))}
                    touched.add(k)
                free = sorted(keys - touched)
                if free and draw(st.booleans()):
                    k = draw(st.sampled_from(free))
                    upd['_delete'] = [k]
                    keys_after_add.discard(k)
                keys = keys_after_add
                if upd:
                    batch[j][name] = {'v': upd}
        else:
            group = draw(st.sampled_from(UNIT_GROUPS))
            unit = draw(st.sampled_from(group))
            updater = draw(st.sampled_from([None, 'accumulate', 'set']))
            mag = st.one_of(st.integers(-20, 20), dyadic)
            var = {'name': name, 'path': list(path), 'family': 'q', 'kind': 'q',
                   'updater': updater, 'init': draw(mag), 'unit': unit,
                   'declare_units': draw(st.booleans())}
            if var['declare_units'] and draw(st.integers(0, 2)) == 0:
                # the default is written in another compatible unit than the
                # declared _units
                other = draw(st.sampled_from(group))
                if other != unit:
                    var['init_unit'] = other
            for j in range(nupd):
                if mention[j]:
                    entry = {'v': draw(mag)}
                    other = draw(st.sampled_from(group))
                    if other != unit:
                        entry['unit'] = other
                    batch[j][name] = entry
        vars_.append(var)
    delivery = draw(st.sampled_from(['direct', 'multi', 'engine']))
    return {'delivery': delivery, 'vars': vars_, 'batch': batch,
            'empty_struct': draw(st.booleans()),
            'reader': draw(st.integers(0, 2)) == 0}


def strategy(tier):
    return strategy_(tier)


SIGNATURES = {}

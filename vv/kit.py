"""Observation kit: scripted recording processes/steps, recording updaters and a
recording emitter.  Everything is observed through public extension points.

Kit objects hold plain data only (they are deep-copied by division and pickled
for parallel workers).  The event log, the engine reference and counters live
in the module-level context CTX[run_id].
"""
import copy
import itertools

from vivarium.core.process import Process, Step
from vivarium.core.emitter import Emitter
from vivarium.core.registry import emitter_registry

CTX = {}
_ids = itertools.count(1)


class PollBudgetExceeded(BaseException):
    """Deterministic non-termination signal (BaseException so that no
    `except Exception` in the code under test can swallow it)."""


class Context:
    def __init__(self, t0=0, budget=None):
        self.run_id = next(_ids)
        self.log = []
        self.engine = None
        self.t0 = t0
        self.polls = 0
        self.budget = budget
        self.tokens = 0
        self.counters = {}
        self.snap = False       # snapshot whole state at invocations
        self.keep = []          # keeps observed instances alive (stable ids)
        CTX[self.run_id] = self

    def now(self):
        if self.engine is not None:
            return self.engine.global_time
        return self.t0

    def rec(self, *event):
        self.log.append(event)

    def next_token(self):
        k = self.tokens
        self.tokens += 1
        return 1 << k

    def count(self, key):
        n = self.counters.get(key, 0)
        self.counters[key] = n + 1
        return n

    def close(self):
        CTX.pop(self.run_id, None)
        self.engine = None
        self.keep = []


def ctx_of(run_id):
    return CTX.get(run_id)


# ------------------------------------------------------------------ updaters

_UPDATERS = {}


def recording_updater(run_id, tag, mode='acc'):
    """One function object per (run, tag, mode): several declarers of one
    variable must present the *same* updater."""
    key = (run_id, tag, mode)
    fn = _UPDATERS.get(key)
    if fn is None:
        def fn(current, new, _rid=run_id, _tag=tag, _mode=mode):
            ctx = CTX.get(_rid)
            if ctx is not None:
                ctx.rec('apply', _tag, ctx.now(), new)
            if _mode == 'set':
                return new
            return current + new
        fn.__name__ = 'rec_%s_%s' % (mode, tag)
        _UPDATERS[key] = fn
        if len(_UPDATERS) > 5000:
            for k in list(_UPDATERS)[:2500]:
                if k[0] != run_id:
                    del _UPDATERS[k]
    return fn


# ------------------------------------------------------------------ processes

def _pick(script, i):
    return script[i] if i < len(script) else script[-1]


class RecProcess(Process):
    """Scripted process.

    parameters:
      run_id, name
      ts: [timestep, ...]       ts_mode: 'invocation' | 'poll'
      cond: None | [bool, ...]  (indexed by condition poll; last repeats)
      shared: [names of shared accumulate variables under port 'shared']
      emit: bool
    Every next_update returns one fresh token (a power of two) for its own
    variable and for every shared variable.
    """
    defaults = {'run_id': 0, 'ts': [1.0], 'ts_mode': 'invocation',
                'cond': None, 'shared': ['sum'], 'emit': True,
                'meta': False, 'salt': 0, 'port_order': None, 'record': True,
                'twin': False, 'setlast': False}

    def __init__(self, parameters=None):
        super().__init__(parameters)
        self.n_polls = 0
        self.n_cond = 0
        self.n_invocations = 0

    def ports_schema(self):
        rid = self.parameters['run_id']
        emit = self.parameters['emit']
        record = self.parameters['record']
        own = {'acc': {'_default': 0, '_emit': emit}}
        if record:
            own['acc']['_updater'] = recording_updater(rid, 'own:' + self.name)
        if self.parameters['meta']:
            own['last'] = {'_default': 0, '_emit': emit, '_updater': 'set'}
        shared_names = list(self.parameters['shared'])
        order = self.parameters['port_order']
        if order == 'reversed':
            shared_names.reverse()
            own = dict(reversed(list(own.items())))
        shared = {v: {'_default': 0, '_emit': emit} for v in shared_names}
        if record:
            for v in shared_names:
                shared[v]['_updater'] = recording_updater(rid, 'shared:' + v)
        if self.parameters['setlast']:
            # order-sensitive: every process sets it to its own salt, so the
            # value shows whose update of an instant was applied last
            shared['winner'] = {'_default': 0, '_emit': emit, '_updater': 'set'}
        schema = ({'shared': shared, 'own': own} if order == 'reversed'
                  else {'own': own, 'shared': shared})
        if self.parameters['twin']:
            # two ports of this process wired to ONE store, the shared
            # variable nested one level below them
            for port in ('ta', 'tb'):
                leaf = {'_default': 0, '_emit': emit}
                if record:
                    leaf['_updater'] = recording_updater(rid, 'twin:t')
                schema[port] = {'sub': {'t': leaf}}
        return schema

    def calculate_timestep(self, states):
        ctx = CTX.get(self.parameters['run_id'])
        if self.parameters['ts_mode'] == 'poll':
            tau = _pick(self.parameters['ts'], self.n_polls)
        else:
            tau = _pick(self.parameters['ts'], self.n_invocations)
        self.n_polls += 1
        if ctx is not None:
            ctx.polls += 1
            ctx.rec('poll', self.name, ctx.now(), tau)
            if ctx.budget is not None and ctx.polls > ctx.budget:
                raise PollBudgetExceeded(
                    '%d polls (budget %d)' % (ctx.polls, ctx.budget))
        return tau

    def update_condition(self, timestep, states):
        ctx = CTX.get(self.parameters['run_id'])
        script = self.parameters['cond']
        if self.condition_path:
            # vivarium's own state-dependent condition (_condition parameter)
            ans = Process.update_condition(self, timestep, states)
        else:
            ans = True if script is None else _pick(script, self.n_cond)
        self.n_cond += 1
        if ctx is not None:
            ctx.rec('cond', self.name, ctx.now(), timestep, ans)
        return ans

    def next_update(self, timestep, states):
        ctx = CTX.get(self.parameters['run_id'])
        self.n_invocations += 1
        if self.parameters['meta']:
            # order-independent, state-dependent value
            seen = sum(v for k, v in states['shared'].items()
                       if k != 'winner')
            token = (self.parameters['salt'] * 7 + self.n_invocations * 3
                     + seen) % 1009 + 1
        else:
            token = ctx.next_token() if ctx is not None else 0
        if ctx is not None:
            whole = None
            if ctx.snap and ctx.engine is not None:
                whole = plain_state(ctx.engine.state.get_value())
            ctx.rec('invoke', self.name, ctx.now(), timestep, token,
                    copy.deepcopy(states), whole)
        update = {
            'own': {'acc': token},
            'shared': {v: token for v in self.parameters['shared']},
        }
        if self.parameters['meta']:
            update['own']['last'] = seen
        if self.parameters['setlast']:
            update['shared']['winner'] = self.parameters['salt']
        if self.parameters['twin']:
            update['ta'] = {'sub': {'t': token}}
            update['tb'] = {'sub': {'t': token}}
        return update


class RecStep(Step):
    """Bystander / observing step: reads the shared variables, writes one token
    per run to its own variable."""
    defaults = {'run_id': 0, 'shared': ['sum'], 'emit': True, 'meta': False,
                'salt': 0, 'record': True}

    def ports_schema(self):
        rid = self.parameters['run_id']
        if self.parameters['meta']:
            shared = {v: {'_default': 0, '_emit': True}
                      for v in self.parameters['shared']}
            if self.parameters['record']:
                for v in shared:
                    shared[v]['_updater'] = recording_updater(
                        rid, 'shared:' + v)
            return {
                'own': {'acc': {'_default': 0, '_emit': True}},
                'shared': shared,
                'layer': {'ssum': {'_default': 0, '_emit': True}},
            }
        return {
            'own': {'acc': {
                '_default': 0, '_emit': self.parameters['emit'],
                '_updater': recording_updater(rid, 'own:' + self.name)}},
            'shared': {
                v: {'_default': 0, '_emit': self.parameters['emit'],
                    '_updater': recording_updater(rid, 'shared:' + v)}
                for v in self.parameters['shared']},
            'layer': {'ssum': {
                '_default': 0, '_emit': self.parameters['emit'],
                '_updater': recording_updater(rid, 'layer:ssum')}},
        }

    def next_update(self, timestep, states):
        ctx = CTX.get(self.parameters['run_id'])
        if self.parameters['meta']:
            seen = sum(states['shared'].values()) + states['layer']['ssum']
            v = (self.parameters['salt'] * 5 + seen) % 101 + 1
            if ctx is not None:
                ctx.rec('step', self.name, ctx.now(), timestep, v,
                        copy.deepcopy(states))
            return {'own': {'acc': v}, 'layer': {'ssum': v}}
        token = ctx.next_token() if ctx is not None else 0
        if ctx is not None:
            whole = None
            if ctx.snap and ctx.engine is not None:
                whole = plain_state(ctx.engine.state.get_value())
            ctx.rec('step', self.name, ctx.now(), timestep, token,
                    copy.deepcopy(states), whole)
        return {'own': {'acc': token}, 'layer': {'ssum': token}}


# ------------------------------------------------------------------ emitter

class RecEmitter(Emitter):
    def __init__(self, config):
        super().__init__(config)
        self.run_id = config.get('run_id')
        self.rows = []

    def emit(self, data):
        ctx = CTX.get(self.run_id)
        row = safe_copy(data)
        self.rows.append(row)
        if ctx is not None:
            whole = None
            if ctx.snap and ctx.engine is not None:
                whole = plain_state(ctx.engine.state.get_value())
            ctx.rec('emit', row.get('table'), ctx.now(), row.get('data'), whole)

    def get_data(self, query=None):
        out = {}
        for row in self.rows:
            if row.get('table') == 'history':
                d = dict(row['data'])
                t = d.pop('time', None)
                out[t] = d
        return out


try:
    emitter_registry.register('vv-rec', RecEmitter)
except Exception:       # already registered (module re-import)
    pass


def safe_copy(x):
    try:
        return copy.deepcopy(x)
    except Exception:
        return x


def plain_state(value):
    """Hierarchy values with process entries replaced by a marker."""
    if isinstance(value, dict):
        return {k: plain_state(v) for k, v in value.items()}
    if isinstance(value, tuple) and value and isinstance(value[0], Process):
        return '<process %s>' % value[0].name
    if isinstance(value, Process):
        return '<process %s>' % value.name
    return safe_copy(value)


def emitter_config(ctx):
    return {'type': 'vv-rec', 'run_id': ctx.run_id}


# ------------------------------------------------------------------ C05 kit

class RecStepLegacy(Process):
    """RecStep written the old way: a Process subclass that declares itself a
    step by overriding is_step() (derivers used to be written like this)."""
    defaults = RecStep.defaults

    def is_step(self):
        return True

    ports_schema = RecStep.ports_schema
    next_update = RecStep.next_update


class TickProcess(Process):
    """Adds 1 to the root variable clock/tick with every update."""
    defaults = {'run_id': 0, 'time_step': 1.0, 'empty': False}

    def ports_schema(self):
        rid = self.parameters['run_id']
        return {'clock': {'tick': {
            '_default': 0, '_emit': True,
            '_updater': recording_updater(rid, 'tick')}}}

    def next_update(self, timestep, states):
        ctx = CTX.get(self.parameters['run_id'])
        if ctx is not None:
            ctx.rec('invoke', self.name, ctx.now(), timestep, 1, None, None)
        if self.parameters['empty']:
            return {}           # a batch may consist of empty updates only
        return {'clock': {'tick': 1}}


class DoneStep(Step):
    """Stamps done/<name> := current tick and records the stamps it sees.

    parameters: run_id, name, all: [names of every step of the compartment]
    """
    defaults = {'run_id': 0, 'all': [], 'spawn': False}

    def __init__(self, parameters=None):
        super().__init__(parameters)
        self.n_spawned = 0

    def ports_schema(self):
        rid = self.parameters['run_id']
        schema = {
            'done': {n: {'_default': -1, '_emit': True,
                         '_updater': recording_updater(rid, 'done:' + n, 'set')}
                     for n in self.parameters['all']},
            'clock': {'tick': {'_default': 0, '_emit': True,
                               '_updater': recording_updater(rid, 'tick')}},
        }
        if self.parameters['spawn']:
            schema['pool'] = {'*': {'_default': 0, '_emit': True}}
        return schema

    def next_update(self, timestep, states):
        ctx = CTX.get(self.parameters['run_id'])
        tick = states['clock']['tick']
        if ctx is not None:
            ctx.rec('step', self.name, ctx.now(), timestep, tick,
                    dict(states['done']), None)
        upd = {'done': {self.name: tick}}
        if self.parameters['spawn'] and tick >= 1:
            # a structural update issued from inside a step layer
            self.n_spawned += 1
            upd['pool'] = {'_add': [{'key': 'n%d' % self.n_spawned,
                                     'state': tick}]}
        return upd


# ------------------------------------------------------------------ wiring kit

class WireProcess(Process):
    """Process with a given ports schema that records the states it is handed
    and returns a fixed update.

    parameters: run_id, schema (ports schema), update (returned by every
    next_update), time_step, script: optional list of updates indexed by call
    """
    defaults = {'run_id': 0, 'schema': {}, 'update': {}, 'script': None,
                'init': {}}

    def __init__(self, parameters=None):
        super().__init__(parameters)
        self.n_calls = 0

    def ports_schema(self):
        return copy.deepcopy(self.parameters['schema'])

    def initial_state(self, config=None):
        return copy.deepcopy(self.parameters['init'])

    def _rec(self, kind, timestep, states):
        ctx = CTX.get(self.parameters['run_id'])
        if ctx is not None:
            whole = None
            if ctx.snap and ctx.engine is not None:
                whole = plain_state(ctx.engine.state.get_value())
            ctx.rec(kind, self.name, ctx.now(), timestep, None,
                    copy.deepcopy(states), whole)

    def calculate_timestep(self, states):
        self._rec('view.timestep', None, states)
        return self.parameters['timestep']

    def update_condition(self, timestep, states):
        self._rec('view.condition', timestep, states)
        return True

    def next_update(self, timestep, states):
        self._rec('invoke', timestep, states)
        script = self.parameters['script']
        self.n_calls += 1
        if script is not None:
            i = self.n_calls - 1
            return copy.deepcopy(script[i]) if i < len(script) else {}
        return copy.deepcopy(self.parameters['update'])


class WireStep(Step):
    """WireProcess as a Step (a viewer that runs in the step phases)."""
    defaults = WireProcess.defaults

    def __init__(self, parameters=None):
        super().__init__(parameters)
        self.n_calls = 0

    ports_schema = WireProcess.ports_schema
    initial_state = WireProcess.initial_state
    _rec = WireProcess._rec
    update_condition = WireProcess.update_condition
    next_update = WireProcess.next_update


# ------------------------------------------------------------------ structural kit

SUB_SCHEMA = {'x': {'_default': 7, '_emit': True},
              'y': {'_default': 9, '_emit': True}}
OP_TOPOLOGY = {'g1': ('G1',), 'g2': ('G2',), 'g3': ('G1', 'perm', 'sub'),
               'clock': ('clock',)}


class AgentProc(Process):
    """Resident process of an agent compartment: leaf ports x and y; adds
    `inc` to x per update.  Records every invocation with its identity."""
    defaults = {'run_id': 0, 'inc': 0, 'time_step': 1.0, 'anchor': False}

    def ports_schema(self):
        schema = {'x': dict(SUB_SCHEMA['x']), 'y': dict(SUB_SCHEMA['y'])}
        if self.parameters['anchor']:
            # wired two levels up ('..', '..', 'anchor'): which node that is
            # depends on where the compartment currently sits
            schema['anchor'] = {'v': {'_default': 5, '_emit': True}}
        return schema

    def next_update(self, timestep, states):
        ctx = CTX.get(self.parameters['run_id'])
        if ctx is not None:
            ctx.keep.append(self)
            own = None
            if ctx.snap and ctx.engine is not None:
                own = own_compartment(ctx.engine.state, self)
            ctx.rec('invoke', self.name, ctx.now(), timestep, id(self),
                    copy.deepcopy(states), own)
        inc = self.parameters['inc']
        return {'x': inc} if inc else {}


def own_compartment(root, process):
    """(path, {'x':..,'y':..}) of the compartment that holds `process`, read
    directly from the hierarchy nodes."""
    def walk(store, path):
        for k, child in store.inner.items():
            if child.value is process:
                vals = {v: store.inner[v].value for v in ('x', 'y')
                        if v in store.inner}
                if process.parameters.get('anchor'):
                    # follow the tree itself two levels up from the compartment
                    up = store.outer.outer if store.outer is not None else None
                    node = up.inner.get('anchor') if up is not None else None
                    leaf = node.inner.get('v') if node is not None else None
                    vals['anchor'] = {
                        'v': leaf.value if leaf is not None else 'MISSING'}
                return (path, vals)
            if child.inner:
                found = walk(child, path + (k,))
                if found:
                    return found
        return None
    return walk(root, ())


class AgentStep(Step):
    """Resident step (flow step or deriver): reads x, writes nothing."""
    defaults = {'run_id': 0}

    def ports_schema(self):
        return {'x': dict(SUB_SCHEMA['x'])}

    def next_update(self, timestep, states):
        ctx = CTX.get(self.parameters['run_id'])
        if ctx is not None:
            ctx.keep.append(self)
            own = None
            if ctx.snap and ctx.engine is not None:
                own = own_compartment(ctx.engine.state, self)
            ctx.rec('step', self.name, ctx.now(), timestep, id(self),
                    copy.deepcopy(states), own)
        return {}


def resident_parts(res, run_id, parallel=False):
    """-> (processes, steps, flow, topology) for a resident description
    {'ts': float, 'inc': int, 'step': bool, 'deriver': bool}."""
    params = {'name': 'grow', 'run_id': run_id, 'inc': res.get('inc', 0),
              'time_step': res.get('ts', 1.0)}
    if parallel or res.get('parallel'):
        params['_parallel'] = True
    if res.get('anchor'):
        params['anchor'] = True
    processes = {'grow': AgentProc(params)}
    topology = {'grow': {'x': ('x',), 'y': ('y',)}}
    if res.get('anchor'):
        topology['grow']['anchor'] = ('..', '..', 'anchor')
    steps, flow = {}, {}
    if res.get('step'):
        if res.get('chain'):
            # listed first, but must run after 'obs' (its dependency)
            steps['obs2'] = AgentStep({'name': 'obs2', 'run_id': run_id})
            flow['obs2'] = [('obs',)]
            topology['obs2'] = {'x': ('x',)}
        sparams = {'name': 'obs', 'run_id': run_id}
        if res.get('parallel_step') and (parallel or res.get('parallel')):
            sparams['_parallel'] = True
        steps['obs'] = AgentStep(sparams)
        flow['obs'] = []
        topology['obs'] = {'x': ('x',)}
    if res.get('deriver'):
        der = AgentStep({'name': 'der', 'run_id': run_id})
        if res.get('legacy'):
            # the legacy layout: a deriver listed under `processes`
            processes['der'] = der
        else:
            steps['der'] = der
        topology['der'] = {'x': ('x',)}
    return processes, steps, flow, topology


def op_update(ops, run_id):
    """Translate one tick's plain-data ops into a vivarium update of the
    operator's ports."""
    upd = {}

    def port(name):
        return upd.setdefault(name, {})
    for op in ops:
        kind = op['op']
        if kind in ('add', 'add_existing'):
            port(op['coll']).setdefault('_add', []).append(
                {'key': op['key'], 'state': dict(op.get('state') or {})})
        elif kind == 'delete':
            form = op.get('form', 'key')
            if form == 'key':
                item = op['key']
            elif form == 'tuple':
                item = (op['key'],)
            elif form == 'list':
                item = [op['key']]
            else:                       # deep: from g1 down to a g3 child
                item = ('perm', 'sub', op['key'])
            port(op['coll']).setdefault('_delete', []).append(item)
        elif kind == 'set':
            port(op['coll'])[op['key']] = dict(op['delta'])
        elif kind == 'move':
            target = op['target']
            move = {'source': (op['key'],),
                    'target': (target,) if isinstance(target, str)
                    else tuple(target)}
            if op.get('update'):
                move['update'] = dict(op['update'])
            port(op['coll']).setdefault('_move', []).append(move)
        elif kind == 'generate':
            gen = {'key': op['key'], 'processes': {}, 'topology': {},
                   'initial_state': dict(op.get('state') or {})}
            if op.get('resident'):
                p, s, f, t = resident_parts(op['resident'], run_id)
                gen.update(processes=p, topology=t)
                if s:
                    gen.update(steps=s, flow=f)
            port(op['coll']).setdefault('_generate', []).append(gen)
        elif kind == 'divide':
            daughters = []
            for key, st in zip(op['daughters'], op['states']):
                d = {'key': key}
                if st:
                    d['initial_state'] = dict(st)
                if op.get('explicit'):
                    d['processes'], d['topology'] = {}, {}
                    if op.get('resident'):
                        p, s, f, t = resident_parts(op['resident'], run_id)
                        d.update(processes=p, topology=t)
                        if s:
                            d.update(steps=s, flow=f)
                daughters.append(d)
            port(op['coll'])['_divide'] = {'mother': op['mother'],
                                           'daughters': daughters}
        else:
            raise ValueError(kind)
    return upd


class OpProcess(Process):
    """Operator: at its k-th call returns the k-th batch of the script."""
    defaults = {'run_id': 0, 'script': [], 'time_step': 1.0}

    def __init__(self, parameters=None):
        super().__init__(parameters)
        self.n_calls = 0

    def ports_schema(self):
        return {
            'g1': {'*': copy.deepcopy(SUB_SCHEMA)},
            'g2': {'*': copy.deepcopy(SUB_SCHEMA)},
            'g3': {'*': copy.deepcopy(SUB_SCHEMA)},
            'clock': {'tick': {'_default': 0, '_emit': True}},
        }

    def next_update(self, timestep, states):
        ctx = CTX.get(self.parameters['run_id'])
        script = self.parameters['script']
        i = self.n_calls
        self.n_calls += 1
        ops = script[i] if i < len(script) else []
        if ctx is not None:
            ctx.rec('op', self.name, ctx.now(), i, ops)
        upd = op_update(ops, self.parameters['run_id'])
        upd.setdefault('clock', {})['tick'] = 1 if not self.is_step() else 0
        return upd


class OpStep(Step):
    """Operator as a step: the k-th phase issues the k-th batch."""
    defaults = {'run_id': 0, 'script': []}

    def __init__(self, parameters=None):
        super().__init__(parameters)
        self.n_calls = 0

    ports_schema = OpProcess.ports_schema

    def next_update(self, timestep, states):
        ctx = CTX.get(self.parameters['run_id'])
        script = self.parameters['script']
        i = self.n_calls
        self.n_calls += 1
        ops = script[i] if i < len(script) else []
        if ctx is not None:
            ctx.rec('op', self.name, ctx.now(), i, ops)
        return op_update(ops, self.parameters['run_id'])


# ------------------------------------------------------------------ division kit (C11)

def div_user(value, state=None, config=None):
    """User divider with topology and config: [m + other*k, m - other*k]."""
    other = (state or {}).get('other', 0)
    k = (config or {}).get('k', 1)
    return [value + other * k, value - other * k]


def cell_parts(run_id, cell_id, schema, mode, plan=()):
    """-> (processes, steps, flow, topology) of one cell compartment."""
    params = {'name': 'cellproc', 'run_id': run_id, 'schema': schema,
              'agent_id': cell_id, 'mode': mode, 'plan': list(plan)}
    processes = {'cellproc': CellProcess(params)}
    topology = {'cellproc': {'st': ('st',), 'agents': ('..',)}}
    steps, flow = {}, {}
    if mode == 'self_step':
        steps['cellstep'] = CellStep(dict(params, name='cellstep'))
        flow['cellstep'] = []
        topology['cellstep'] = {'st': ('st',), 'agents': ('..',)}
    return processes, steps, flow, topology


def daughters_for(run_id, mother, schema, mode, plan, overrides, explicit):
    out = []
    for i, suffix in enumerate('01'):
        key = mother + suffix
        d = {'key': key}
        ov = (overrides or [None, None])[i]
        if ov:
            d['initial_state'] = {'st': copy.deepcopy(ov)}
        if explicit:
            p, s, f, t = cell_parts(run_id, key, schema, mode, plan)
            d.update(processes=p, topology=t)
            if s:
                d.update(steps=s, flow=f)
        out.append(d)
    return out


class _CellBase:
    defaults = {'run_id': 0, 'schema': {}, 'agent_id': '0', 'mode': 'ext',
                'plan': [], 'overrides': {}}

    def ports_schema(self):
        return {'st': build_schema(self.parameters['schema']),
                'agents': {'*': {}}}

    def _wants_division(self):
        """The harness names the cell to divide in ctx.counters['divide_now']."""
        ctx = CTX.get(self.parameters['run_id'])
        if ctx is None:
            return False
        if ctx.counters.get('divide_now') == self.parameters['agent_id']:
            ctx.counters['divide_now'] = None
            return True
        return False

    def _divide_update(self):
        me = self.parameters['agent_id']
        ctx = CTX.get(self.parameters['run_id'])
        ov = (ctx.counters.get('overrides') or {}).get(me) if ctx else None
        return {'agents': {'_divide': {
            'mother': me,
            'daughters': daughters_for(
                self.parameters['run_id'], me, self.parameters['schema'],
                self.parameters['mode'], [], ov, True)}}}


def vv_extend(current, new):
    """In-place list updater (what a user updater may legitimately do)."""
    current.extend(new)
    return current


def vv_iadd(current, new):
    """In-place numpy updater."""
    current += new
    return current


INPLACE_UPDATERS = {'vv_extend': vv_extend, 'vv_iadd': vv_iadd}


def build_schema(desc):
    """Plain-data schema description -> ports schema.  Leaves are dicts with
    the key '_default'; divider names 'user' map to the user function."""
    from vivarium.library.units import units
    import numpy as np
    out = {}
    for k, v in desc.items():
        if k == '_divider':
            out[k] = v
        elif isinstance(v, dict) and '_default' not in v:
            out[k] = build_schema(v)
        else:
            leaf = dict(v)
            if leaf.get('_unit'):
                leaf['_default'] = leaf['_default'] * units(leaf.pop('_unit')).units
            if leaf.get('_array'):
                leaf.pop('_array')
                leaf['_default'] = np.array(leaf['_default'])
            if leaf.get('_inf'):
                leaf.pop('_inf')
                leaf['_default'] = float('inf')
            if leaf.get('_updater') in INPLACE_UPDATERS:
                leaf['_updater'] = INPLACE_UPDATERS[leaf['_updater']]
            d = leaf.get('_divider')
            if d == 'user':
                leaf['_divider'] = {'divider': div_user,
                                    'topology': {'other': ('..', 'other')},
                                    'config': {'k': leaf.pop('_k', 1)}}
            elif d == 'set_value':
                leaf['_divider'] = {'divider': 'set_value',
                                    'config': {'value': leaf.pop('_sv')}}
            out[k] = leaf
    return out


class CellProcess(_CellBase, Process):
    """Resident of a cell: declares the cell's variables; in mode
    'self_process' it divides its own cell when the harness says so; when the
    variable st/active is 1 and the harness has switched acting on, it updates
    its cell's variables."""

    def __init__(self, parameters=None):
        Process.__init__(self, parameters)

    def next_update(self, timestep, states):
        ctx = CTX.get(self.parameters['run_id'])
        if ctx is not None:
            ctx.keep.append(self)
            ctx.rec('invoke', 'cellproc', ctx.now(), timestep, id(self),
                    self.parameters['agent_id'], None)
        if self.parameters['mode'] == 'self_process' and \
                self._wants_division():
            return self._divide_update()
        if ctx is not None and ctx.counters.get('acting') and \
                states['st'].get('active') == 1:
            return {'st': copy.deepcopy(ctx.counters['act_update'])}
        return {}


class CellStep(_CellBase, Step):
    def __init__(self, parameters=None):
        Step.__init__(self, parameters)

    def next_update(self, timestep, states):
        if self._wants_division():
            return self._divide_update()
        return {}


class DivProcess(Process):
    """External divider at the root: divides the cell the harness names, with
    explicit daughters or by copying the mother."""
    defaults = {'run_id': 0, 'schema': {}, 'mode': 'ext_explicit', 'outer': {}}

    def ports_schema(self):
        sub = {}
        if self.parameters['outer']:
            # variables of every cell that only this process declares
            sub = {'st': build_schema(self.parameters['outer'])}
        return {'agents': {'*': sub}, 'clock': {'tick': {'_default': 0}}}

    def next_update(self, timestep, states):
        ctx = CTX.get(self.parameters['run_id'])
        upd = {'clock': {'tick': 1}}
        mode = self.parameters['mode']
        if ctx is not None and mode.startswith('ext') and \
                ctx.counters.get('divide_now'):
            mother = ctx.counters['divide_now']
            ctx.counters['divide_now'] = None
            ov = (ctx.counters.get('overrides') or {}).get(mother)
            upd['agents'] = {'_divide': {
                'mother': mother,
                'daughters': daughters_for(
                    self.parameters['run_id'], mother,
                    self.parameters['schema'], 'ext', [], ov,
                    mode == 'ext_explicit')}}
        return upd


# ------------------------------------------------------------------ emit kit (C12)

from vivarium.core.registry import Serializer as _Serializer


class TagSerializer(_Serializer):
    python_type = None

    def serialize(self, data):
        return '!tag[%r]' % (data,)


TAG_SERIALIZER = TagSerializer()
try:
    from vivarium.core.registry import serializer_registry as _sreg
    if _sreg.access('vv-tag') is None:
        _sreg.registry['vv-tag'] = TAG_SERIALIZER   # by name only: not listed
        _sreg.registry['vv-tag2'] = TagSerializer()
except Exception:
    pass


class EmitProcess(Process):
    """Declares leaves described by plain data and increments them.

    parameters: run_id, leaves: [{'path': [...], 'emit': bool, 'kind':
    'int'|'q'|'ser', 'unit': str, 'upd_unit': str}], time_step
    """
    defaults = {'run_id': 0, 'leaves': []}

    def ports_schema(self):
        from vivarium.library.units import units
        rid = self.parameters['run_id']
        schema = {}
        for leaf in self.parameters['leaves']:
            decl = {'_emit': leaf['emit']}
            if leaf['kind'] == 'q':
                decl['_default'] = 0 * units(leaf['unit']).units
            elif leaf['kind'] == 'qlist':
                # a list of quantities written in two compatible units,
                # declared (and emitted) in leaf['unit']
                decl['_default'] = [
                    1.0 * units(leaf.get('upd_unit') or leaf['unit']).units,
                    2.0 * units(leaf['unit']).units]
                decl['_units'] = units(leaf['unit']).units
                decl['_updater'] = 'set'
            else:
                decl['_default'] = 0
                decl['_updater'] = recording_updater(
                    rid, 'leaf:' + '/'.join(leaf['path']))
            if leaf['kind'] == 'ser':
                decl['_serializer'] = 'vv-tag'
                if leaf.get('inplace'):
                    # a list that its updater extends in place
                    decl['_default'] = []
                    decl['_updater'] = vv_extend
            cur = schema
            for seg in leaf['path'][:-1]:
                cur = cur.setdefault(seg, {})
            cur[leaf['path'][-1]] = decl
        return {'data': schema,
                'clock': {'tick': {'_default': 0, '_emit': False,
                                   '_updater': recording_updater(rid, 'tick')}}}

    def next_update(self, timestep, states):
        from vivarium.library.units import units
        upd = {}
        for leaf in self.parameters['leaves']:
            if leaf['kind'] == 'q':
                v = 1 * units(leaf.get('upd_unit') or leaf['unit']).units
            elif leaf['kind'] == 'qlist':
                if not leaf.get('write'):
                    continue        # never written: stays as declared
                v = [3.0 * units(leaf.get('upd_unit') or leaf['unit']).units]
            elif leaf.get('inplace'):
                v = [1]
            else:
                v = 1
            cur = upd
            for seg in leaf['path'][:-1]:
                cur = cur.setdefault(seg, {})
            cur[leaf['path'][-1]] = v
        return {'data': upd, 'clock': {'tick': 1}}


def fill_initial_snapshots(ctx, engine):
    """Emits made by the Engine constructor happen before the harness holds the
    engine; nothing runs between them and the constructor's return, so the
    state right after construction is the state they saw."""
    snap = plain_state(engine.state.get_value())
    for i, ev in enumerate(ctx.log):
        if ev[0] == 'emit' and ev[4] is None:
            ctx.log[i] = ev[:4] + (copy.deepcopy(snap),)


# ------------------------------------------------------------------ composer kit (C16)

from vivarium.core.composer import Composer as _Composer


def make_part(desc, run_id):
    """-> (processes, steps, flow, topology) from plain data
    {'procs': [{'name','ts','salt'}], 'steps': [{'name','deps','salt'}]}"""
    processes, steps, flow, topology = {}, {}, {}, {}
    for p in desc.get('procs', []):
        processes[p['name']] = RecProcess({
            'name': p['name'], 'run_id': run_id, 'ts': [p['ts']],
            'meta': True, 'salt': p['salt']})
        topology[p['name']] = {'own': ('own', p['name']), 'shared': ('shared',)}
    for d in desc.get('legacy', []):
        # legacy deriver: a Step listed under `processes`, no flow entry
        processes[d['name']] = RecStep({'name': d['name'], 'run_id': run_id,
                                        'meta': True, 'salt': d['salt']})
        topology[d['name']] = {'own': ('own', d['name']),
                               'shared': ('shared',), 'layer': ('layer',)}
    for s in desc.get('steps', []):
        steps[s['name']] = RecStep({'name': s['name'], 'run_id': run_id,
                                    'meta': True, 'salt': s['salt']})
        flow[s['name']] = [(d,) for d in s['deps']]
        topology[s['name']] = {'own': ('own', s['name']),
                               'shared': ('shared',), 'layer': ('layer',)}
    return processes, steps, flow, topology


class SpecComposer(_Composer):
    defaults = {'desc': {}, 'run_id': 0}

    def generate_processes(self, config):
        return make_part(config['desc'], config['run_id'])[0]

    def generate_steps(self, config):
        return make_part(config['desc'], config['run_id'])[1]

    def generate_flow(self, config):
        return make_part(config['desc'], config['run_id'])[2]

    def generate_topology(self, config):
        return make_part(config['desc'], config['run_id'])[3]



class Toggler(Process):
    """Sets condition flags flags/<name> from scripts, one entry per call."""
    defaults = {'run_id': 0, 'scripts': {}, 'time_step': 1.0}

    def __init__(self, parameters=None):
        super().__init__(parameters)
        self.n_calls = 0

    def ports_schema(self):
        rid = self.parameters['run_id']
        return {'flags': {n: {'_default': True, '_emit': True,
                              '_updater': recording_updater(
                                  rid, 'flag:' + n, 'set')}
                          for n in self.parameters['scripts']}}

    def next_update(self, timestep, states):
        i = self.n_calls
        self.n_calls += 1
        ctx = CTX.get(self.parameters['run_id'])
        upd = {n: _pick(sc, i)
               for n, sc in self.parameters['scripts'].items()}
        if ctx is not None:
            ctx.rec('toggle', self.name, ctx.now(), i, timestep, dict(upd))
        return {'flags': upd}

"""Observation kit: scripted recording processes/steps, recording updaters and a
recording emitter.  Everything is observed through public extension points.

Kit objects hold plain data only (they are deep-copied by division and pickled
for parallel workers).  The event log, the engine reference and counters live
in the module-level context CTX[run_id].
"""
import copy
import itertools

from vivarium.core.process import Process, Step
from vivarium.core.emitter import Emitter
from vivarium.core.registry import emitter_registry

CTX = {}
_ids = itertools.count(1)


class PollBudgetExceeded(BaseException):
    """Deterministic non-termination signal (BaseException so that no
    `except Exception` in the code under test can swallow it)."""


class Context:
    def __init__(self, t0=0, budget=None):
        self.run_id = next(_ids)
        self.log = []
        self.engine = None
        self.t0 = t0
        self.polls = 0
        self.budget = budget
        self.tokens = 0
        self.counters = {}
        self.snap = False       # snapshot whole state at invocations
        CTX[self.run_id] = self

    def now(self):
        if self.engine is not None:
            return self.engine.global_time
        return self.t0

    def rec(self, *event):
        self.log.append(event)

    def next_token(self):
        k = self.tokens
        self.tokens += 1
        return 1 << k

    def count(self, key):
        n = self.counters.get(key, 0)
        self.counters[key] = n + 1
        return n

    def close(self):
        CTX.pop(self.run_id, None)
        self.engine = None


def ctx_of(run_id):
    return CTX.get(run_id)


# ------------------------------------------------------------------ updaters

_UPDATERS = {}


def recording_updater(run_id, tag, mode='acc'):
    """One function object per (run, tag, mode): several declarers of one
    variable must present the *same* updater."""
    key = (run_id, tag, mode)
    fn = _UPDATERS.get(key)
    if fn is None:
        def fn(current, new, _rid=run_id, _tag=tag, _mode=mode):
            ctx = CTX.get(_rid)
            if ctx is not None:
                ctx.rec('apply', _tag, ctx.now(), new)
            if _mode == 'set':
                return new
            return current + new
        fn.__name__ = 'rec_%s_%s' % (mode, tag)
        _UPDATERS[key] = fn
        if len(_UPDATERS) > 5000:
            for k in list(_UPDATERS)[:2500]:
                if k[0] != run_id:
                    del _UPDATERS[k]
    return fn


# ------------------------------------------------------------------ processes

def _pick(script, i):
    return script[i] if i < len(script) else script[-1]


class RecProcess(Process):
    """Scripted process.

    parameters:
      run_id, name
      ts: [timestep, ...]       ts_mode: 'invocation' | 'poll'
      cond: None | [bool, ...]  (indexed by condition poll; last repeats)
      shared: [names of shared accumulate variables under port 'shared']
      emit: bool
    Every next_update returns one fresh token (a power of two) for its own
    variable and for every shared variable.
    """
    defaults = {'run_id': 0, 'ts': [1.0], 'ts_mode': 'invocation',
                'cond': None, 'shared': ['sum'], 'emit': True,
                'meta': False, 'salt': 0, 'port_order': None}

    def __init__(self, parameters=None):
        super().__init__(parameters)
        self.n_polls = 0
        self.n_cond = 0
        self.n_invocations = 0

    def ports_schema(self):
        rid = self.parameters['run_id']
        emit = self.parameters['emit']
        own = {'acc': {
            '_default': 0, '_emit': emit,
            '_updater': recording_updater(rid, 'own:' + self.name)}}
        if self.parameters['meta']:
            own['last'] = {'_default': 0, '_emit': emit, '_updater': 'set'}
        shared_names = list(self.parameters['shared'])
        order = self.parameters['port_order']
        if order == 'reversed':
            shared_names.reverse()
            own = dict(reversed(list(own.items())))
        shared = {
            v: {'_default': 0, '_emit': emit,
                '_updater': recording_updater(rid, 'shared:' + v)}
            for v in shared_names}
        if order == 'reversed':
            return {'shared': shared, 'own': own}
        return {'own': own, 'shared': shared}

    def calculate_timestep(self, states):
        ctx = CTX.get(self.parameters['run_id'])
        if self.parameters['ts_mode'] == 'poll':
            tau = _pick(self.parameters['ts'], self.n_polls)
        else:
            tau = _pick(self.parameters['ts'], self.n_invocations)
        self.n_polls += 1
        if ctx is not None:
            ctx.polls += 1
            ctx.rec('poll', self.name, ctx.now(), tau)
            if ctx.budget is not None and ctx.polls > ctx.budget:
                raise PollBudgetExceeded(
                    '%d polls (budget %d)' % (ctx.polls, ctx.budget))
        return tau

    def update_condition(self, timestep, states):
        ctx = CTX.get(self.parameters['run_id'])
        script = self.parameters['cond']
        ans = True if script is None else _pick(script, self.n_cond)
        self.n_cond += 1
        if ctx is not None:
            ctx.rec('cond', self.name, ctx.now(), timestep, ans)
        return ans

    def next_update(self, timestep, states):
        ctx = CTX.get(self.parameters['run_id'])
        self.n_invocations += 1
        if self.parameters['meta']:
            # order-independent, state-dependent value
            seen = sum(states['shared'].values())
            token = (self.parameters['salt'] * 7 + self.n_invocations * 3
                     + seen) % 1009 + 1
        else:
            token = ctx.next_token() if ctx is not None else 0
        if ctx is not None:
            whole = None
            if ctx.snap and ctx.engine is not None:
                whole = plain_state(ctx.engine.state.get_value())
            ctx.rec('invoke', self.name, ctx.now(), timestep, token,
                    copy.deepcopy(states), whole)
        update = {
            'own': {'acc': token},
            'shared': {v: token for v in self.parameters['shared']},
        }
        if self.parameters['meta']:
            update['own']['last'] = seen
        return update


class RecStep(Step):
    """Bystander / observing step: reads the shared variables, writes one token
    per run to its own variable."""
    defaults = {'run_id': 0, 'shared': ['sum'], 'emit': True, 'meta': False,
                'salt': 0}

    def ports_schema(self):
        rid = self.parameters['run_id']
        if self.parameters['meta']:
            return {
                'own': {'acc': {'_default': 0, '_emit': True}},
                'shared': {v: {'_default': 0, '_emit': True,
                               '_updater': recording_updater(rid, 'shared:' + v)}
                           for v in self.parameters['shared']},
                'layer': {'ssum': {'_default': 0, '_emit': True}},
            }
        return {
            'own': {'acc': {
                '_default': 0, '_emit': self.parameters['emit'],
                '_updater': recording_updater(rid, 'own:' + self.name)}},
            'shared': {
                v: {'_default': 0, '_emit': self.parameters['emit'],
                    '_updater': recording_updater(rid, 'shared:' + v)}
                for v in self.parameters['shared']},
            'layer': {'ssum': {
                '_default': 0, '_emit': self.parameters['emit'],
                '_updater': recording_updater(rid, 'layer:ssum')}},
        }

    def next_update(self, timestep, states):
        ctx = CTX.get(self.parameters['run_id'])
        if self.parameters['meta']:
            seen = sum(states['shared'].values()) + states['layer']['ssum']
            v = (self.parameters['salt'] * 5 + seen) % 101 + 1
            if ctx is not None:
                ctx.rec('step', self.name, ctx.now(), timestep, v,
                        copy.deepcopy(states))
            return {'own': {'acc': v}, 'layer': {'ssum': v}}
        token = ctx.next_token() if ctx is not None else 0
        if ctx is not None:
            whole = None
            if ctx.snap and ctx.engine is not None:
                whole = plain_state(ctx.engine.state.get_value())
            ctx.rec('step', self.name, ctx.now(), timestep, token,
                    copy.deepcopy(states), whole)
        return {'own': {'acc': token}, 'layer': {'ssum': token}}


# ------------------------------------------------------------------ emitter

class RecEmitter(Emitter):
    def __init__(self, config):
        super().__init__(config)
        self.run_id = config.get('run_id')
        self.rows = []

    def emit(self, data):
        ctx = CTX.get(self.run_id)
        row = safe_copy(data)
        self.rows.append(row)
        if ctx is not None:
            whole = None
            if ctx.snap and ctx.engine is not None:
                whole = plain_state(ctx.engine.state.get_value())
            ctx.rec('emit', row.get('table'), ctx.now(), row.get('data'), whole)

    def get_data(self, query=None):
        out = {}
        for row in self.rows:
            if row.get('table') == 'history':
                d = dict(row['data'])
                t = d.pop('time', None)
                out[t] = d
        return out


try:
    emitter_registry.register('vv-rec', RecEmitter)
except Exception:       # already registered (module re-import)
    pass


def safe_copy(x):
    try:
        return copy.deepcopy(x)
    except Exception:
        return x


def plain_state(value):
    """Hierarchy values with process entries replaced by a marker."""
    if isinstance(value, dict):
        return {k: plain_state(v) for k, v in value.items()}
    if isinstance(value, tuple) and value and isinstance(value[0], Process):
        return '<process %s>' % value[0].name
    if isinstance(value, Process):
        return '<process %s>' % value.name
    return safe_copy(value)


def emitter_config(ctx):
    return {'type': 'vv-rec', 'run_id': ctx.run_id}


# ------------------------------------------------------------------ C05 kit

class TickProcess(Process):
    """Adds 1 to the root variable clock/tick with every update."""
    defaults = {'run_id': 0, 'time_step': 1.0}

    def ports_schema(self):
        rid = self.parameters['run_id']
        return {'clock': {'tick': {
            '_default': 0, '_emit': True,
            '_updater': recording_updater(rid, 'tick')}}}

    def next_update(self, timestep, states):
        ctx = CTX.get(self.parameters['run_id'])
        if ctx is not None:
            ctx.rec('invoke', self.name, ctx.now(), timestep, 1, None, None)
        return {'clock': {'tick': 1}}


class DoneStep(Step):
    """Stamps done/<name> := current tick and records the stamps it sees.

    parameters: run_id, name, all: [names of every step of the compartment]
    """
    defaults = {'run_id': 0, 'all': []}

    def ports_schema(self):
        rid = self.parameters['run_id']
        return {
            'done': {n: {'_default': -1, '_emit': True,
                         '_updater': recording_updater(rid, 'done:' + n, 'set')}
                     for n in self.parameters['all']},
            'clock': {'tick': {'_default': 0, '_emit': True,
                               '_updater': recording_updater(rid, 'tick')}},
        }

    def next_update(self, timestep, states):
        ctx = CTX.get(self.parameters['run_id'])
        tick = states['clock']['tick']
        if ctx is not None:
            ctx.rec('step', self.name, ctx.now(), timestep, tick,
                    dict(states['done']), None)
        return {'done': {self.name: tick}}

"""Lexical path algebra and pure dict-tree helpers (reference for C17).
Nothing here imports vivarium."""
import copy


def normalize(path):
    """Lexical normal form of an absolute path; None when it climbs above
    the root at any prefix."""
    out = []
    for seg in path:
        if seg == '..':
            if not out:
                return None
            out.pop()
        else:
            out.append(seg)
    return tuple(out)


def nodes(tree, path=()):
    """All node paths of a dict tree (branches and leaves), root included."""
    yield path
    if isinstance(tree, dict):
        for k, v in tree.items():
            yield from nodes(v, path + (k,))


def leaves(tree, path=()):
    """[(path, leaf)] in dict order; empty dicts are not leaves."""
    if isinstance(tree, dict):
        out = []
        for k, v in tree.items():
            out.extend(leaves(v, path + (k,)))
        return out
    return [(path, tree)]


def walk_defined(tree, start, rel):
    """Walk `rel` from node `start` segment by segment; every intermediate
    node must exist.  -> absolute path reached, or None."""
    cur = list(start)
    for seg in rel:
        if seg == '..':
            if not cur:
                return None
            cur.pop()
        else:
            node = lookup(tree, tuple(cur))
            if not isinstance(node, dict) or seg not in node:
                return None
            cur.append(seg)
    return tuple(cur)


MISSING = object()


def lookup(tree, path):
    cur = tree
    for seg in path:
        if not isinstance(cur, dict) or seg not in cur:
            return MISSING
        cur = cur[seg]
    return cur


def through_leaf(tree, path):
    """True when a proper prefix of `path` addresses a non-dict value."""
    cur = tree
    for seg in path:
        if not isinstance(cur, dict):
            return True
        if seg not in cur:
            return False
        cur = cur[seg]
    return False


def assoc(tree, path, value):
    """Pure: copy of tree with value at path (missing dicts created)."""
    if not path:
        return value
    out = dict(tree) if isinstance(tree, dict) else {}
    head = path[0]
    out[head] = assoc(out.get(head, {}), path[1:], value)
    return out


def delete(tree, path):
    """Pure: copy of tree without the entry at path (unchanged if absent)."""
    if lookup(tree, path) is MISSING or not path:
        return copy.deepcopy(tree)
    out = copy.deepcopy(tree)
    cur = out
    for seg in path[:-1]:
        cur = cur[seg]
    del cur[path[-1]]
    return out

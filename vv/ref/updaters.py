"""Reference semantics of the registered updaters, from docs/guides/processes.rst
("Updaters") and the statement of C08.  Works on plain Python / numpy values;
quantities are modelled as (magnitude in declared unit)."""
import copy

FACTORS = {
    'gram': ('mass', 1.0), 'milligram': ('mass', 1e-3), 'kilogram': ('mass', 1e3),
    'second': ('time', 1.0), 'minute': ('time', 60.0), 'hour': ('time', 3600.0),
    'liter': ('vol', 1.0), 'milliliter': ('vol', 1e-3),
}


def convert(mag, unit_from, unit_to):
    df, ff = FACTORS[unit_from]
    dt, ft = FACTORS[unit_to]
    assert df == dt
    if unit_from == unit_to:
        return mag
    return mag * ff / ft


def user_affine(cur, new):
    return cur * 2 + new


def fold(updater, cur, upd):
    """One application.  `upd` is the raw update value (already unwrapped from
    an override dict)."""
    if updater in (None, 'accumulate'):
        return cur + upd
    if updater == 'set':
        return upd
    if updater == 'null':
        return cur
    if updater == 'affine':
        return user_affine(cur, upd)
    if updater == 'nonnegative_accumulate':
        s = cur + upd
        if hasattr(s, 'shape') and getattr(s, 'shape', ()) != ():
            s = s.copy()
            s[s < 0] = 0
            return s
        return s if s >= 0 else s * 0
    if updater == 'merge':
        out = dict(cur)
        out.update(upd)
        return out
    if updater == 'dict_value':
        out = copy.deepcopy(cur)
        for key, value in upd.items():
            if key == '_add':
                for a in value:
                    out[a['key']] = copy.deepcopy(a['state'])
            elif key == '_delete':
                for k in value:
                    del out[k]
            else:
                out[key].update(copy.deepcopy(value))
        return out
    raise ValueError(updater)

"""Reference model of the hierarchy under structural updates (C07/C09/C10).

The model is a plain dict: {'G1': {child: state}, 'G2': {...}} where a state is
a dict of leaf values, nested collections (perm['sub']) and, under the key
'__res__', the description of resident processes/steps (not a hierarchy
value).  Operations are written from the statement of C09:

 add       creates the named child with the declared sub-schema defaults and
           the given state; adding an existing key is rejected
 delete    removes exactly the named child and everything below it
 generate  inserts the given processes, topology and initial state under key
 divide    replaces the mother by exactly the listed daughters
 move      detaches the source subtree and attaches it under the target
 set       plain value update of a child (accumulate)
In one batch additions and moves come first, deletions last.
"""
import copy

DEFAULTS = {'x': 7, 'y': 9}
PORT_PATH = {'g1': ('G1',), 'g2': ('G2',), 'g3': ('G1', 'perm', 'sub')}


class Rejected(Exception):
    pass


def coll(model, port):
    cur = model
    for seg in PORT_PATH[port]:
        cur = cur[seg]
    return cur


def coll_at(model, path):
    cur = model
    for seg in path:
        cur = cur[seg]
    return cur


def new_state(state, resident=None):
    out = dict(DEFAULTS)
    out.update(state or {})
    if resident:
        out['__res__'] = copy.deepcopy(resident)
    return out


ORDER = {'add': 0, 'move': 1, 'generate': 2, 'divide': 3, 'set': 4,
         'delete': 5, 'add_existing': 0}


def apply_batch(model, batch):
    """Apply one tick's ops in the documented order.  Mutates model."""
    for op in sorted(batch, key=lambda o: ORDER[o['op']]):
        apply_op(model, op)


def apply_op(model, op):
    kind = op['op']
    if kind in ('add', 'add_existing'):
        c = coll(model, op['coll'])
        if op['key'] in c:
            raise Rejected('add of existing key %r' % op['key'])
        c[op['key']] = new_state(op.get('state'))
    elif kind == 'generate':
        c = coll(model, op['coll'])
        c[op['key']] = new_state(op.get('state'), op.get('resident'))
    elif kind == 'delete':
        if op.get('form') == 'deep':
            c = coll(model, 'g3')
        else:
            c = coll(model, op['coll'])
        c.pop(op['key'], None)
    elif kind == 'set':
        c = coll(model, op['coll'])
        if op['key'] in c:
            for var, d in op['delta'].items():
                c[op['key']][var] += d
    elif kind == 'move':
        src = coll(model, op['coll'])
        node = src.pop(op['key'])
        for var, d in (op.get('update') or {}).items():
            node[var] += d
        target = op['target']
        if isinstance(target, str):
            dst = coll(model, target)
        else:
            dst = coll_at(model, PORT_PATH[target[0]] + tuple(target[1:]))
        dst[op['key']] = node
    elif kind == 'divide':
        c = coll(model, op['coll'])
        mother = c.pop(op['mother'])
        for key, st in zip(op['daughters'], op['states']):
            d = {k: copy.deepcopy(v) for k, v in mother.items()
                 if k not in ('__res__', 'sub')}
            d.update(st or {})
            if op.get('explicit'):
                if op.get('resident'):
                    d['__res__'] = copy.deepcopy(op['resident'])
            elif '__res__' in mother:
                d['__res__'] = copy.deepcopy(mother['__res__'])
            c[key] = d
    else:
        raise ValueError(kind)


def values(model):
    """Model without the resident descriptions (comparable with get_value)."""
    if isinstance(model, dict):
        return {k: values(v) for k, v in model.items() if k != '__res__'}
    return model


def residents(model, path=()):
    """{abs path of compartment: resident description}"""
    out = {}
    if isinstance(model, dict):
        if '__res__' in model:
            out[path] = model['__res__']
        for k, v in model.items():
            if k != '__res__':
                out.update(residents(v, path + (k,)))
    return out

"""Reference layering of a step DAG (no networkx): longest-path layers."""


def longest_path_layers(n, edges):
    """edges: [dep, step] with dep < step (indices). -> {step: layer}"""
    deps = {j: [] for j in range(n)}
    for i, j in edges:
        deps[j].append(i)
    layer = {}
    for j in range(n):                 # indices are a topological order
        layer[j] = 1 + max((layer[i] for i in deps[j]), default=-1)
    return layer


def ancestors(n, edges):
    deps = {j: set() for j in range(n)}
    for i, j in edges:
        deps[j].add(i)
    anc = {}
    for j in range(n):
        a = set(deps[j])
        for i in deps[j]:
            a |= anc[i]
        anc[j] = a
    return anc

"""Reference model of a timeline, written from the statement of C19.

An event (t, changes) fires at the first tick k*dt with k*dt >= t, exactly
once.  Events due in the same tick are applied in time order (ties: they act as
one merged event; clashes at equal times are not generated).
"""
import math


def first_tick(t, dt):
    k = int(math.ceil(t / dt))
    while k * dt < t:
        k += 1
    while k > 0 and (k - 1) * dt >= t:
        k -= 1
    return k


def fired_per_tick(events, dt, nticks, t0=0):
    """events: [(t, {key: value})] in listing order -> list (per tick) of the
    merged dict of sets that tick must produce.  The process's clock starts at
    t0 (tick k runs with clock t0 + k*dt)."""
    out = [dict() for _ in range(nticks)]
    order = sorted(range(len(events)), key=lambda i: (events[i][0], i))
    for i in order:
        t, changes = events[i]
        k = max(0, first_tick(t - t0, dt))
        if k < nticks:
            out[k].update(changes)
    return out


def trajectory(events, dt, nticks, varkeys, init=0, inc=1, t0=0):
    """Expected emitted values at times 0, dt, ..., nticks*dt when a step adds
    `inc` to every variable in every step phase (construction included) and the
    sets fired in tick k are applied at (k+1)*dt, before that phase."""
    fired = fired_per_tick(events, dt, nticks, t0)
    cur = {k: init + inc for k in varkeys}
    rows = [dict(cur)]
    for k in range(nticks):
        for key, v in fired[k].items():
            cur[key] = v
        for key in varkeys:
            cur[key] += inc
        rows.append(dict(cur))
    return rows
